//! Reference Datalog over lexical triples: naive least fixpoint; n premises, constants, repeated variables,
//! variable predicates, several conclusions, numeric filters (as `evaluate_filters`: non-numeric parses as 0),
//! optional single top negative stratum, optional tag lattice (expiry: max over derivations of min over premises).
use serde::{Deserialize, Serialize};
use std::collections::{BTreeMap, BTreeSet};
pub type Fact = (String, String, String);
pub type Pat = (String, String, String);
#[derive(Clone, Debug, Serialize, Deserialize, PartialEq)]
pub struct Filter { pub var: String, pub op: String, pub val: String }
#[derive(Clone, Debug, Serialize, Deserialize, PartialEq, Default)]
pub struct Rule { pub prem: Vec<Pat>, #[serde(default)] pub neg: Vec<Pat>, pub conc: Vec<Pat>, #[serde(default)] pub filt: Vec<Filter> }
pub type Binding = BTreeMap<String, String>;
pub fn is_var(t: &str) -> bool { t.starts_with('?') }
pub fn unify(p: &Pat, f: &Fact, b: &Binding) -> Option<Binding> {
    let mut b = b.clone();
    for (t, val) in [(&p.0, &f.0), (&p.1, &f.1), (&p.2, &f.2)] {
        if is_var(t) { match b.get(t) { Some(x) if x != val => return None, Some(_) => {}, None => { b.insert(t.clone(), val.clone()); } } } else if t != val { return None; }
    }
    Some(b)
}
pub fn filters_ok(b: &Binding, fs: &[Filter]) -> bool {
    for f in fs {
        if let Some(l) = b.get(&format!("?{}", f.var)) {
            if let Some(r) = b.get(&format!("?{}", f.val)).or_else(|| b.get(&f.val)) { match f.op.as_str() { "!=" if l == r => return false, "=" if l != r => return false, _ => {} } continue; }
            let ln: f64 = l.parse().unwrap_or(0.0); let rn: f64 = f.val.parse().unwrap_or(0.0);
            let ok = match f.op.as_str() { ">" => ln > rn, "<" => ln < rn, ">=" => ln >= rn, "<=" => ln <= rn, "=" => (ln - rn).abs() <= f64::EPSILON, "!=" => (ln - rn).abs() > f64::EPSILON, _ => true };
            if !ok { return false; }
        }
    }
    true
}
pub fn subst(c: &Pat, b: &Binding) -> Option<Fact> {
    let s = |t: &String| if is_var(t) { b.get(t).cloned() } else { Some(t.clone()) };
    Some((s(&c.0)?, s(&c.1)?, s(&c.2)?))
}
/// all bindings of the positive premises against `facts`
pub fn match_premises(prem: &[Pat], facts: &[Fact]) -> Vec<Binding> {
    // facts grouped by predicate so a constant-predicate premise scans only its group
    let mut by_pred: BTreeMap<&str, Vec<&Fact>> = BTreeMap::new();
    for f in facts { by_pred.entry(f.1.as_str()).or_default().push(f); }
    let all: Vec<&Fact> = facts.iter().collect();
    let empty: Vec<&Fact> = vec![];
    let mut bs = vec![Binding::new()];
    for p in prem {
        let mut nb = vec![];
        for b in &bs {
            let pred: Option<&str> = if is_var(&p.1) { b.get(&p.1).map(|s| s.as_str()) } else { Some(p.1.as_str()) };
            let cands: &Vec<&Fact> = match pred { Some(k) => by_pred.get(k).unwrap_or(&empty), None => &all };
            for f in cands { if let Some(b2) = unify(p, f, b) { nb.push(b2); } }
        }
        bs = nb; if bs.is_empty() { break; }
    }
    bs
}
/// least model of the positive rules (rules with a non-empty `neg` are ignored here)
pub fn least_model(facts: &BTreeSet<Fact>, rules: &[Rule]) -> BTreeSet<Fact> {
    let mut m = facts.clone();
    loop {
        let snap: Vec<Fact> = m.iter().cloned().collect();
        let before = m.len();
        for r in rules.iter().filter(|r| r.neg.is_empty()) {
            for b in match_premises(&r.prem, &snap) { if !filters_ok(&b, &r.filt) { continue; } for c in &r.conc { if let Some(f) = subst(c, &b) { m.insert(f); } } }
        }
        if m.len() == before { return m; }
    }
}
/// stratified model for programs whose negative rules form one top stratum (their conclusions feed no premise)
pub fn stratified_model(facts: &BTreeSet<Fact>, rules: &[Rule]) -> BTreeSet<Fact> {
    let base = least_model(facts, rules);
    let snap: Vec<Fact> = base.iter().cloned().collect();
    let mut m = base.clone();
    for r in rules.iter().filter(|r| !r.neg.is_empty()) {
        for b in match_premises(&r.prem, &snap) {
            if !filters_ok(&b, &r.filt) { continue; }
            let blocked = r.neg.iter().any(|n| match subst(n, &b) { Some(f) => base.contains(&f), None => true });
            if blocked { continue; }
            for c in &r.conc { if let Some(f) = subst(c, &b) { m.insert(f); } }
        }
    }
    m
}
/// least model with the expiry lattice: tag(derived) = max over derivations of min over premise tags
pub fn least_model_expiry(facts: &BTreeMap<Fact, u64>, rules: &[Rule]) -> BTreeMap<Fact, u64> {
    let mut m = facts.clone();
    loop {
        let snap: Vec<Fact> = m.keys().cloned().collect();
        let mut changed = false;
        for r in rules.iter().filter(|r| r.neg.is_empty()) {
            // bindings with the min tag over the matched premises
            let mut bs: Vec<(Binding, u64)> = vec![(Binding::new(), u64::MAX)];
            for p in &r.prem { let mut nb = vec![]; for (b, t) in &bs { for f in &snap { if let Some(b2) = unify(p, f, b) { nb.push((b2, (*t).min(m[f]))); } } } bs = nb; if bs.is_empty() { break; } }
            for (b, t) in bs {
                if !filters_ok(&b, &r.filt) { continue; }
                for c in &r.conc { if let Some(f) = subst(c, &b) { match m.get_mut(&f) { Some(e) => { if t > *e { *e = t; changed = true; } } None => { m.insert(f, t); changed = true; } } } }
            }
        }
        if !changed { return m; }
    }
}
pub fn rule_vars(r: &Rule) -> BTreeSet<String> { r.prem.iter().flat_map(|p| [p.0.clone(), p.1.clone(), p.2.clone()]).filter(|t| is_var(t)).collect() }
/// safe = every variable of conclusions, negative premises and filters occurs in a positive premise
pub fn is_safe(r: &Rule) -> bool {
    let v = rule_vars(r);
    r.conc.iter().chain(r.neg.iter()).flat_map(|p| [&p.0, &p.1, &p.2]).all(|t| !is_var(t) || v.contains(t)) && !r.prem.is_empty()
}
