//! Abstract dataset (quad set + graph catalog), quad-pattern BGP matching, SPARQL 1.1 Update reference semantics.
use serde::{Deserialize, Serialize};
use std::collections::{BTreeMap, BTreeSet};
pub type Q = (String, String, String, Option<String>);
#[derive(Clone, Default, Debug, PartialEq, Eq)]
pub struct Store { pub quads: BTreeSet<Q>, pub graphs: BTreeSet<String> }
#[derive(Clone, Debug, Serialize, Deserialize, PartialEq, Eq)]
pub enum T { Var(String), Iri(String), Lit(String), Bn(String),
    /// an RDF-star quoted triple (templates only)
    Quoted(Box<T>, Box<T>, Box<T>) }
#[derive(Clone, Debug, Serialize, Deserialize, PartialEq, Eq)]
pub enum G { Default, Named(String), Var(String) }
#[derive(Clone, Debug, Serialize, Deserialize, PartialEq, Eq)]
pub struct QP { pub s: T, pub p: T, pub o: T, pub g: G }
pub type Binding = BTreeMap<String, String>;

pub fn txt(t: &T) -> String { match t { T::Var(v) => format!("?{v}"), T::Iri(i) => format!("<{i}>"), T::Lit(l) => format!("\"{l}\""), T::Bn(b) => format!("_:{b}"), T::Quoted(s, p, o) => format!("<< {} {} {} >>", txt(s), txt(p), txt(o)) } }
/// render quad patterns as the body of a group / template (triples grouped by GRAPH)
pub fn block(qs: &[QP]) -> String {
    let mut s = String::new();
    for q in qs {
        let t = format!("{} {} {} .", txt(&q.s), txt(&q.p), txt(&q.o));
        match &q.g { G::Default => s.push_str(&format!(" {t} ")), G::Named(g) => s.push_str(&format!(" GRAPH <{g}> {{ {t} }} ")), G::Var(v) => s.push_str(&format!(" GRAPH ?{v} {{ {t} }} ")) }
    }
    s
}
fn lex(t: &T) -> String { match t { T::Iri(i) => i.clone(), T::Lit(l) => l.clone(), T::Bn(b) => format!("_:{b}"), T::Var(v) => format!("?{v}"), T::Quoted(s, p, o) => format!("<< {} {} {} >>", lex(s), lex(p), lex(o)) } }
/// quad-pattern BGP: default patterns see the default graph, GRAPH <g> needs g in the catalog, GRAPH ?g ranges over the
/// catalog (or the bound value); multiset of bindings (one per way of matching)
pub fn matchq(m: &Store, pat: &[QP]) -> Vec<Binding> {
    let mut sols: Vec<Binding> = vec![Binding::new()];
    for qp in pat {
        let mut next = vec![];
        for b in &sols {
            let graphs: Vec<Option<String>> = match &qp.g {
                G::Default => vec![None],
                G::Named(g) => if m.graphs.contains(g) { vec![Some(g.clone())] } else { vec![] },
                G::Var(v) => match b.get(v) { Some(g) => if m.graphs.contains(g) { vec![Some(g.clone())] } else { vec![] }, None => m.graphs.iter().map(|g| Some(g.clone())).collect() },
            };
            for g in graphs {
                for q in m.quads.iter().filter(|q| q.3 == g) {
                    let mut b2 = b.clone();
                    if let (G::Var(v), Some(gn)) = (&qp.g, &g) { b2.insert(v.clone(), gn.clone()); }
                    let mut ok = true;
                    for (t, val) in [(&qp.s, &q.0), (&qp.p, &q.1), (&qp.o, &q.2)] {
                        match t {
                            T::Var(v) => match b2.get(v) { Some(x) if x != val => { ok = false; break; } Some(_) => {} None => { b2.insert(v.clone(), val.clone()); } },
                            T::Bn(_) | T::Quoted(..) => { ok = false; break; }
                            other => if &lex(other) != val { ok = false; break; },
                        }
                    }
                    if ok { next.push(b2); }
                }
            }
        }
        sols = next;
    }
    sols
}
pub fn is_iri(s: &str) -> bool { s.starts_with("http://") || s.starts_with("urn:") }
pub fn is_bn(s: &str) -> bool { s.starts_with("_:") }
/// template instantiation: unbound variable -> quad skipped; variable-bound literal in subject / non-IRI in predicate or
/// graph position -> quad skipped; blank-node label -> one fresh node per solution (INSERT templates only)
pub fn inst(tpl: &[QP], sols: &[Binding], insert: bool, ctr: &mut u64) -> BTreeSet<Q> { inst_pre(tpl, sols, insert, ctr, None) }
/// the same with Kolibrie's convention for terms whose kind the dictionary does not record (relative IRIs such as `<r1>` are
/// stored as the bare string): such a term bound to a template variable is a legal subject / predicate / graph name iff the
/// PRE-operation dataset already uses it in that role (or as a graph name). What matters for the property is that the
/// decision is taken on the pre-operation dataset.
pub fn inst_pre(tpl: &[QP], sols: &[Binding], insert: bool, ctr: &mut u64, pre: Option<&Store>) -> BTreeSet<Q> {
    let used_s = |x: &str| pre.map(|m| m.graphs.contains(x) || m.quads.iter().any(|q| q.0 == x)).unwrap_or(false);
    let used_p = |x: &str| pre.map(|m| m.graphs.contains(x) || m.quads.iter().any(|q| q.1 == x)).unwrap_or(false);
    let mut out = BTreeSet::new();
    for b in sols {
        let mut bn: BTreeMap<String, String> = BTreeMap::new();
        for q in tpl {
            // a blank-node label denotes one fresh node per solution, wherever it occurs in the template (also inside a quoted triple)
            fn term_in(t: &T, b: &Binding, bn: &mut BTreeMap<String, String>, insert: bool, ctr: &mut u64) -> Option<(String, bool)> {
                match t {
                    T::Var(v) => b.get(v).map(|x| (x.clone(), true)),
                    T::Bn(l) => { if !insert { return None; } Some((bn.entry(l.clone()).or_insert_with(|| { *ctr += 1; format!("_:B{}", *ctr) }).clone(), false)) }
                    T::Quoted(s, p, o) => { let (s, _) = term_in(s, b, bn, insert, ctr)?; let (p, _) = term_in(p, b, bn, insert, ctr)?; let (o, _) = term_in(o, b, bn, insert, ctr)?; Some((format!("<< {} {} {} >>", s, p, o), false)) }
                    o => Some((lex(o), false)),
                }
            }
            let mut term = |t: &T, ctr: &mut u64| -> Option<(String, bool)> { term_in(t, b, &mut bn, insert, ctr) };
            let Some((s, sv)) = term(&q.s, ctr) else { continue };
            // a quoted triple (built from IRIs / blank nodes) bound to a variable is a legal RDF-star subject; it is no predicate or graph name
            if sv && !(is_iri(&s) || is_bn(&s) || used_s(&s) || s.starts_with("<< ")) { continue; }
            let Some((p, pv)) = term(&q.p, ctr) else { continue };
            if pv && !(is_iri(&p) || (!is_bn(&p) && used_p(&p))) { continue; }
            let Some((o, _)) = term(&q.o, ctr) else { continue };
            let g = match &q.g { G::Default => None, G::Named(g) => Some(g.clone()), G::Var(v) => match b.get(v) { Some(g) if is_iri(g) => Some(g.clone()), _ => continue } };
            out.insert((s, p, o, g));
        }
    }
    out
}
/// all deletions, then all insertions; counts = quads that actually changed; inserting into a graph creates its identity
pub fn apply(m: &mut Store, del: &BTreeSet<Q>, ins: &BTreeSet<Q>) -> (usize, usize) {
    let mut d = 0; for q in del { if m.quads.remove(q) { d += 1; } }
    let mut i = 0; for q in ins { if let Some(g) = &q.3 { m.graphs.insert(g.clone()); } if m.quads.insert(q.clone()) { i += 1; } }
    (i, d)
}

/// are two quad sets equal modulo a bijection on blank nodes whose labels satisfy `fresh` (all other terms literal)?
/// None = search budget exhausted (caller must not alarm)
pub fn iso_modulo_fresh_bnodes(a: &BTreeSet<Q>, b: &BTreeSet<Q>, fresh_a: &dyn Fn(&str) -> bool, fresh_b: &dyn Fn(&str) -> bool) -> Option<bool> {
    if a.len() != b.len() { return Some(false); }
    let nodes = |s: &BTreeSet<Q>, f: &dyn Fn(&str) -> bool| -> Vec<String> { let mut v: BTreeSet<String> = BTreeSet::new(); for q in s { for t in [&q.0, &q.2] { if f(t) { v.insert(t.clone()); } } } v.into_iter().collect() };
    let (na, nb) = (nodes(a, fresh_a), nodes(b, fresh_b));
    if na.len() != nb.len() { return Some(false); }
    if na.is_empty() { return Some(a == b); }
    // signature: multiset of (position, predicate, graph, other term or "*" if fresh)
    let sig = |s: &BTreeSet<Q>, n: &str, f: &dyn Fn(&str) -> bool| -> Vec<String> { let mut v = vec![]; for q in s { if q.0 == n { v.push(format!("S|{}|{:?}|{}", q.1, q.3, if f(&q.2) { "*".to_string() } else { q.2.clone() })); } if q.2 == n { v.push(format!("O|{}|{:?}|{}", q.1, q.3, if f(&q.0) { "*".to_string() } else { q.0.clone() })); } } v.sort(); v };
    // nodes whose every neighbour is a non-fresh term are interchangeable inside their signature class: label them
    // canonically (class signature + running index) on both sides, and search only over the remaining nodes
    let canon_simple = |s: &BTreeSet<Q>, ns: &[String], f: &dyn Fn(&str) -> bool| -> (BTreeSet<Q>, Vec<String>) {
        let mut classes: BTreeMap<Vec<String>, Vec<String>> = BTreeMap::new(); let mut complex = vec![];
        for n in ns { let sg = sig(s, n, f); if sg.iter().any(|x| x.ends_with("|*")) { complex.push(n.clone()); } else { classes.entry(sg).or_default().push(n.clone()); } }
        let mut rename: BTreeMap<String, String> = BTreeMap::new();
        for (ci, (_, members)) in classes.iter().enumerate() { for (k, m) in members.iter().enumerate() { rename.insert(m.clone(), format!("\u{1}simple-{}-{}", ci, k)); } }
        let out = s.iter().map(|q| (rename.get(&q.0).cloned().unwrap_or(q.0.clone()), q.1.clone(), rename.get(&q.2).cloned().unwrap_or(q.2.clone()), q.3.clone())).collect();
        (out, complex)
    };
    let (a2, na) = canon_simple(a, &na, fresh_a); let (b2, nb) = canon_simple(b, &nb, fresh_b);
    let (a, b) = (&a2, &b2);
    if na.len() != nb.len() { return Some(false); }
    if na.is_empty() { return Some(a == b); }
    let sa: Vec<Vec<String>> = na.iter().map(|n| sig(a, n, fresh_a)).collect();
    let sb: Vec<Vec<String>> = nb.iter().map(|n| sig(b, n, fresh_b)).collect();
    fn rec(i: usize, na: &[String], nb: &[String], sa: &[Vec<String>], sb: &[Vec<String>], used: &mut Vec<bool>, map: &mut BTreeMap<String, String>, a: &BTreeSet<Q>, b: &BTreeSet<Q>, budget: &mut u64) -> bool {
        if *budget == 0 { return false; } *budget -= 1;
        if i == na.len() { let mapped: BTreeSet<Q> = a.iter().map(|q| (map.get(&q.0).cloned().unwrap_or(q.0.clone()), q.1.clone(), map.get(&q.2).cloned().unwrap_or(q.2.clone()), q.3.clone())).collect(); return mapped == *b; }
        for j in 0..nb.len() { if used[j] || sa[i] != sb[j] { continue; } used[j] = true; map.insert(na[i].clone(), nb[j].clone()); if rec(i + 1, na, nb, sa, sb, used, map, a, b, budget) { return true; } map.remove(&na[i]); used[j] = false; }
        false
    }
    let mut budget = 4_000u64;
    let r = rec(0, &na, &nb, &sa, &sb, &mut vec![false; nb.len()], &mut BTreeMap::new(), a, b, &mut budget);
    if !r && budget == 0 { None } else { Some(r) }
}
