//! Reference models (oracles). Written from the specifications; no dependency on /repo code.
pub mod tt;
pub mod datalog;
pub mod quads;
