//! Boolean functions over <= 8 variables as 256-bit truth tables; weighted sums and derivatives.
#[derive(Clone, Copy, PartialEq, Eq, Hash, Debug, PartialOrd, Ord)]
pub struct TT(pub [u64; 4]);
pub const ROWS: usize = 256;
impl TT {
    pub const FALSE: TT = TT([0; 4]);
    pub const TRUE: TT = TT([u64::MAX; 4]);
    pub fn get(&self, row: usize) -> bool { (self.0[row >> 6] >> (row & 63)) & 1 == 1 }
    pub fn set(&mut self, row: usize) { self.0[row >> 6] |= 1 << (row & 63); }
    pub fn lit(v: usize, pol: bool) -> TT { let mut t = TT::FALSE; for r in 0..ROWS { if ((r >> v) & 1 == 1) == pol { t.set(r); } } t }
    pub fn and(self, o: TT) -> TT { TT([self.0[0] & o.0[0], self.0[1] & o.0[1], self.0[2] & o.0[2], self.0[3] & o.0[3]]) }
    pub fn or(self, o: TT) -> TT { TT([self.0[0] | o.0[0], self.0[1] | o.0[1], self.0[2] | o.0[2], self.0[3] | o.0[3]]) }
    pub fn not(self) -> TT { TT([!self.0[0], !self.0[1], !self.0[2], !self.0[3]]) }
    pub fn implies(self, o: TT) -> bool { self.and(o.not()) == TT::FALSE }
    pub fn exactly_one(vars: &[usize]) -> TT { let mut t = TT::FALSE; for r in 0..ROWS { if vars.iter().filter(|&&v| (r >> v) & 1 == 1).count() == 1 { t.set(r); } } t }
    pub fn count(&self) -> u32 { self.0.iter().map(|x| x.count_ones()).sum() }
    /// does the function depend on variable v?
    pub fn depends_on(&self, v: usize) -> bool { (0..ROWS).any(|r| self.get(r) != self.get(r ^ (1 << v))) }
    pub fn hash64(&self) -> u64 { let mut h = 0xcbf29ce484222325u64; for w in self.0 { h ^= w; h = h.wrapping_mul(0x100000001b3); h ^= h >> 29; } h }
    /// sum over satisfying rows (restricted to `vars`, the registered variables; other variables are projected out by
    /// looking only at rows where they are 0 — callers guarantee the function does not depend on them)
    pub fn wsum(&self, vars: &[usize], pos: &[f64], neg: &[f64]) -> f64 {
        let mut s = 0.0;
        let mask: usize = vars.iter().map(|&v| 1usize << v).sum();
        for r in 0..ROWS {
            if r & !mask != 0 { continue; }
            if self.get(r) { let mut p = 1.0; for &v in vars { p *= if (r >> v) & 1 == 1 { pos[v] } else { neg[v] }; } s += p; }
        }
        s
    }
}
