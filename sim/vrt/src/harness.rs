//! Batch runner, watchdog, determinism re-check, shrinker, replay I/O, known findings, evidence writer.
use crate::log::Log;
use crate::rng::mix;
use serde::{de::DeserializeOwned, Serialize};
use serde_json::{json, Value};
use std::collections::{BTreeMap, HashSet};
use std::io::Write;
use std::sync::atomic::{AtomicBool, AtomicU64, Ordering};
use std::sync::{Arc, Mutex};
use std::time::{Duration, Instant};

#[derive(Clone, Copy, Debug, PartialEq, Eq)]
pub enum Tier { Quick, Thorough }
impl Tier { pub fn name(&self) -> &'static str { match self { Tier::Quick => "quick", Tier::Thorough => "thorough" } } }

#[derive(Clone, Debug, Serialize, serde::Deserialize)]
pub struct Violation { pub class: String, pub detail: String }
impl Violation { pub fn new(class: &str, detail: String) -> Violation { Violation { class: class.to_string(), detail } } }

pub struct Ctx {
    pub log: Log,
    pub counters: BTreeMap<&'static str, u64>,
    pub nontrivial: Vec<u64>,
    pub states: Vec<u64>,
    pub sim_ns: u64,
}
impl Ctx {
    pub fn new(keep: bool) -> Ctx { Ctx { log: Log::new(keep), counters: BTreeMap::new(), nontrivial: Vec::new(), states: Vec::new(), sim_ns: 0 } }
    pub fn count(&mut self, k: &'static str, n: u64) { *self.counters.entry(k).or_insert(0) += n; }
    pub fn hit(&mut self, k: &'static str) { self.count(k, 1); }
    pub fn nontrivial(&mut self, key: u64) { self.nontrivial.push(key); }
    pub fn state(&mut self, h: u64) { if self.states.len() < 4096 { self.states.push(h); } }
}

pub struct Budget { pub runs: u64, pub wall_s: u64, pub recheck: u64 }

pub trait Prop: Sync + Send + 'static {
    type Case: Serialize + DeserializeOwned + Clone + Send + 'static;
    fn id(&self) -> &'static str;
    fn level(&self) -> &'static str { "exploration" }
    fn budget(&self, tier: Tier) -> Budget;
    fn gen(&self, run_seed: u64, run_index: u64, tier: Tier) -> Self::Case;
    fn hash_seed(&self, c: &Self::Case) -> u64;
    /// runs on a fresh OS thread; must be a pure function of the case
    fn exec(&self, c: &Self::Case, ctx: &mut Ctx) -> Option<Violation>;
    fn shrink(&self, _c: &Self::Case) -> Vec<Self::Case> { Vec::new() }
    fn rule(&self) -> String;
    fn assumptions(&self) -> Vec<String> { Vec::new() }
    fn real_vs_stub(&self) -> Value { json!({}) }
    /// does a (minimised) violating case fall into the region named by a known finding's matcher?
    fn matches_known(&self, _c: &Self::Case, _v: &Violation, _matcher: &str) -> bool { false }
    /// fault / probe counters this engine is expected to hit; one stuck at zero is reported in the evidence (`zero_probes`)
    fn expected_counters(&self) -> Vec<&'static str> { Vec::new() }
    fn sample(&self, c: &Self::Case) -> Value { serde_json::to_value(c).unwrap_or(Value::Null) }
}

// ---------------------------------------------------------------------------------------------------------------
// output: /repo code prints freely; the harness keeps the real stdout for itself and sends fd 1/2 to /dev/null
static OUT: Mutex<Option<std::fs::File>> = Mutex::new(None);
pub fn capture_stdio() {
    use std::os::unix::io::FromRawFd;
    let mut g = OUT.lock().unwrap();
    if g.is_some() { return; }
    unsafe {
        let saved = libc::dup(1);
        *g = Some(std::fs::File::from_raw_fd(saved));
        if std::env::var("VERIF_KEEP_STDIO").is_err() {
            let devnull = libc::open(b"/dev/null\0".as_ptr() as *const libc::c_char, libc::O_WRONLY);
            libc::dup2(devnull, 1);
            libc::dup2(devnull, 2);
        }
    }
}
pub fn out(s: &str) {
    let mut g = OUT.lock().unwrap();
    match g.as_mut() { Some(f) => { let _ = writeln!(f, "{}", s); let _ = f.flush(); } None => { println!("{}", s); } }
}
#[macro_export]
macro_rules! outln { ($($arg:tt)*) => { $crate::harness::out(&format!($($arg)*)) } }

// ---------------------------------------------------------------------------------------------------------------
// panic bookkeeping: where did an unwind start?
thread_local! { static LAST_PANIC: std::cell::RefCell<Option<(String, String)>> = const { std::cell::RefCell::new(None) }; }
pub fn install_panic_hook() {
    std::panic::set_hook(Box::new(|info| {
        let loc = info.location().map(|l| format!("{}:{}", l.file(), l.line())).unwrap_or_default();
        let msg = if let Some(s) = info.payload().downcast_ref::<&str>() { s.to_string() } else if let Some(s) = info.payload().downcast_ref::<String>() { s.clone() } else { "<non-string panic>".to_string() };
        LAST_PANIC.with(|p| *p.borrow_mut() = Some((loc, msg)));
    }));
}
pub fn take_panic() -> Option<(String, String)> { LAST_PANIC.with(|p| p.borrow_mut().take()) }
/// run `f`, turning an unwind into Err((location, message))
pub fn guard<T>(f: impl FnOnce() -> T) -> Result<T, (String, String)> {
    match std::panic::catch_unwind(std::panic::AssertUnwindSafe(f)) {
        Ok(v) => Ok(v),
        Err(_) => Err(take_panic().unwrap_or_default()),
    }
}
pub fn panic_in_harness(loc: &str) -> bool { loc.contains("/verif/") || loc.starts_with("ksim") || loc.starts_with("vrt/") || loc.starts_with("sim-") || loc.starts_with("models/") }

pub struct RunResult { pub violation: Option<Violation>, pub ctx: Ctx, pub harness_panic: Option<String> }

pub fn run_fresh<P: Prop>(prop: &Arc<P>, case: &P::Case, keep: bool) -> RunResult {
    let p = prop.clone();
    let c = case.clone();
    let hs = prop.hash_seed(case);
    let h = std::thread::Builder::new().stack_size(64 << 20).spawn(move || {
        crate::hash::set_hash_seed(hs);
        let mut ctx = Ctx::new(keep);
        let r = guard(|| p.exec(&c, &mut ctx));
        crate::sim::set_sim(false);
        crate::sim::clock::uninstall();
        crate::sim::hybrid_clock::uninstall();
        (r, ctx)
    }).expect("spawn run thread");
    match h.join() {
        Ok((Ok(v), ctx)) => RunResult { violation: v, ctx, harness_panic: None },
        Ok((Err((loc, msg)), ctx)) => {
            if panic_in_harness(&loc) { RunResult { violation: None, ctx, harness_panic: Some(format!("{} @ {}", msg, loc)) } }
            else { RunResult { violation: Some(Violation::new("unwind", format!("panic escaped the system under test at {}: {}", loc, msg))), ctx, harness_panic: None } }
        }
        Err(_) => RunResult { violation: None, ctx: Ctx::new(false), harness_panic: Some("run thread died".into()) },
    }
}

// ---------------------------------------------------------------------------------------------------------------
pub fn verif_dir() -> std::path::PathBuf { std::env::var("VERIF_DIR").map(Into::into).unwrap_or_else(|_| "/verif".into()) }
pub fn verif_seed() -> u64 { std::env::var("VERIF_SEED").ok().and_then(|s| s.trim().parse::<i64>().ok()).map(|x| x as u64).unwrap_or(20260925) }

#[derive(Clone, Debug, serde::Deserialize)]
pub struct KnownEntry {
    pub property: String,
    pub id: String,
    pub status: String,            // "known" | "fixed"
    pub class: String,
    #[serde(default)] pub matcher: String,
    #[serde(default)] pub what: String,
    #[serde(default)] pub commit: String,
    #[serde(default)] pub witness: Value,
}
pub fn load_known(id: &str) -> Vec<KnownEntry> {
    let p = verif_dir().join("known_findings.json");
    let Ok(txt) = std::fs::read_to_string(&p) else { return Vec::new() };
    let v: Value = match serde_json::from_str(&txt) { Ok(v) => v, Err(e) => { out(&format!("HARNESS-ERROR known_findings.json unreadable: {}", e)); std::process::exit(2) } };
    let mut r = Vec::new();
    for e in v.get("findings").and_then(|x| x.as_array()).cloned().unwrap_or_default() {
        match serde_json::from_value::<KnownEntry>(e) { Ok(k) => if k.property == id { r.push(k) }, Err(e) => { out(&format!("HARNESS-ERROR bad known finding entry: {}", e)); std::process::exit(2) } }
    }
    r
}

fn write_replay<P: Prop>(prop: &P, tag: &str, run_seed: u64, case: &P::Case, v: &Violation, log: &[String]) -> String {
    let dir = verif_dir().join("replays");
    let _ = std::fs::create_dir_all(&dir);
    let path = dir.join(format!("{}-{}.json", prop.id(), tag));
    let j = json!({ "property": prop.id(), "class": v.class, "detail": v.detail, "run_seed": run_seed, "case": serde_json::to_value(case).unwrap(), "event_log_tail": log.iter().rev().take(60).rev().collect::<Vec<_>>() });
    std::fs::write(&path, serde_json::to_string_pretty(&j).unwrap()).expect("write replay");
    path.to_string_lossy().to_string()
}

pub fn shrink_case<P: Prop>(prop: &Arc<P>, case: P::Case, class: &str, max_exec: usize, max_s: u64) -> (P::Case, Violation, usize) {
    let t0 = Instant::now();
    let mut cur = case;
    let mut curv = run_fresh(prop, &cur, false).violation.expect("shrink start must violate");
    let mut execs = 1;
    'outer: loop {
        for cand in prop.shrink(&cur) {
            if execs >= max_exec || t0.elapsed().as_secs() >= max_s { break 'outer; }
            execs += 1;
            let r = run_fresh(prop, &cand, false);
            if r.harness_panic.is_some() { continue; }
            if let Some(v) = r.violation { if v.class == class { cur = cand; curv = v; continue 'outer; } }
        }
        break;
    }
    (cur, curv, execs)
}


// ---------------------------------------------------------------------------------------------------------------
// crash containment: the batch runs in a child process; each worker publishes the run index it is executing in a
// shared-memory slot file, so that after an abort (stack overflow, double panic, SIGSEGV) the supervisor can find the
// culprit by re-running the in-flight indices one per process, minimise it with one process per candidate, and
// report it as a violation of class `crash` instead of dying without a verdict.
pub mod slots {
    use std::sync::atomic::{AtomicPtr, AtomicU64, Ordering};
    static BASE: AtomicPtr<AtomicU64> = AtomicPtr::new(std::ptr::null_mut());
    pub const N: usize = 64;
    pub fn create(path: &std::path::Path) { let _ = std::fs::create_dir_all(path.parent().unwrap()); std::fs::write(path, vec![0u8; N * 8]).expect("slots file"); }
    pub fn attach() {
        let Ok(path) = std::env::var("VERIF_SLOTS") else { return };
        use std::os::unix::io::AsRawFd;
        let Ok(f) = std::fs::OpenOptions::new().read(true).write(true).open(&path) else { return };
        let p = unsafe { libc::mmap(std::ptr::null_mut(), N * 8, libc::PROT_READ | libc::PROT_WRITE, libc::MAP_SHARED, f.as_raw_fd(), 0) };
        if p != libc::MAP_FAILED { BASE.store(p as *mut AtomicU64, Ordering::SeqCst); }
    }
    pub fn set(slot: usize, v: u64) { let b = BASE.load(Ordering::Relaxed); if !b.is_null() && slot < N { unsafe { (*b.add(slot)).store(v, Ordering::SeqCst); } } }
    pub fn read(path: &std::path::Path) -> Vec<u64> { let bytes = std::fs::read(path).unwrap_or_default(); bytes.chunks(8).filter(|c| c.len() == 8).map(|c| u64::from_le_bytes(c.try_into().unwrap())).collect() }
}

fn child_crashed(st: &std::process::ExitStatus) -> bool { !matches!(st.code(), Some(0) | Some(1) | Some(2)) }
fn spawn_self(args: &[String], extra_env: &[(&str, String)], timeout_s: u64) -> Option<std::process::ExitStatus> {
    let exe = std::env::current_exe().expect("current_exe");
    let mut cmd = std::process::Command::new(exe);
    cmd.args(args).env("VERIF_CHILD", "1");
    for (k, v) in extra_env { cmd.env(k, v); }
    cmd.stdout(std::process::Stdio::null()).stderr(std::process::Stdio::null());
    let mut ch = cmd.spawn().expect("spawn self");
    let t0 = Instant::now();
    loop {
        match ch.try_wait() { Ok(Some(st)) => return Some(st), Ok(None) => {}, Err(_) => return None }
        if t0.elapsed().as_secs() > timeout_s { let _ = ch.kill(); let _ = ch.wait(); return None; }
        std::thread::sleep(Duration::from_millis(5));
    }
}
/// does executing this case in its own process crash the process?
fn crashes_in_subprocess<P: Prop>(prop: &P, case: &P::Case, tag: &str) -> bool {
    let dir = verif_dir().join("replays"); let _ = std::fs::create_dir_all(&dir);
    let tmp = dir.join(format!(".probe-{}-{}-{}.json", prop.id(), std::process::id(), tag));
    let _ = std::fs::write(&tmp, serde_json::to_string(&json!({"property": prop.id(), "case": serde_json::to_value(case).unwrap()})).unwrap());
    let st = spawn_self(&["replay-child".to_string(), tmp.to_string_lossy().to_string()], &[], 120);
    let _ = std::fs::remove_file(&tmp);
    match st { Some(st) => child_crashed(&st), None => false }
}

/// does this case fail to return within `timeout_s` when executed alone in a process of its own?
fn hangs_in_subprocess<P: Prop>(prop: &P, case: &P::Case, tag: &str, timeout_s: u64) -> bool {
    let dir = verif_dir().join("replays"); let _ = std::fs::create_dir_all(&dir);
    let tmp = dir.join(format!(".probe-{}-{}-{}.json", prop.id(), std::process::id(), tag));
    let _ = std::fs::write(&tmp, serde_json::to_string(&json!({"property": prop.id(), "case": serde_json::to_value(case).unwrap()})).unwrap());
    let st = spawn_self(&["replay-child".to_string(), tmp.to_string_lossy().to_string()], &[], timeout_s);
    let _ = std::fs::remove_file(&tmp);
    st.is_none()
}
fn hang_confirm_s() -> u64 { std::env::var("VERIF_HANG_CONFIRM_S").ok().and_then(|s| s.parse().ok()).unwrap_or(120) }
/// the batch watchdog saw a run make no progress: decide between a violation (class `hang`) and a harness error
fn confirm_hang<P: Prop>(prop: &Arc<P>, tier: Tier, note: &str, t0: Instant) -> ! {
    let id = prop.id();
    let txt = std::fs::read_to_string(note).unwrap_or_default(); let _ = std::fs::remove_file(note);
    let cands: Vec<u64> = txt.split_whitespace().filter_map(|x| x.parse().ok()).collect();
    let seed = verif_seed(); let confirm = hang_confirm_s();
    // candidates are the runs that were stuck for at least half the watchdog time, lowest run index first
    let found = cands.iter().copied().find(|&i| { let c = prop.gen(mix(seed, i), i, tier); hangs_in_subprocess(&**prop, &c, "hang", confirm) });
    let Some(i) = found else {
        outln!("HARNESS-ERROR runs {:?} made no progress inside the batch but each returns when executed alone: starved or too slow, not a hang", cands);
        std::process::exit(2);
    };
    let run_seed = mix(seed, i);
    let case = prop.gen(run_seed, i, tier);
    // minimise: a candidate counts as hanging when it does not return within a short probe time; the result is confirmed again
    let probe = (confirm / 8).max(10);
    let mut cur = case.clone(); let mut execs = 0; let ts = Instant::now();
    'outer: loop {
        for (n, cand) in prop.shrink(&cur).into_iter().enumerate() {
            if execs >= 40 || ts.elapsed().as_secs() > 300 { break 'outer; }
            execs += 1;
            if hangs_in_subprocess(&**prop, &cand, &format!("h{}", n), probe) { cur = cand; continue 'outer; }
        }
        break;
    }
    if execs > 0 && !hangs_in_subprocess(&**prop, &cur, "hangfinal", confirm) { cur = case; }
    let v = Violation::new("hang", format!("executing this case alone in a fresh process does not return within {} s (the same run made no progress in the batch): non-termination, livelock or deadlock inside the system under test", confirm));
    let p = write_replay(&**prop, &format!("{}", run_seed), run_seed, &cur, &v, &[]);
    outln!("VIOLATION property={} replay={}", id, p);
    outln!("  class=hang run_index={} run_seed={} shrink_execs={} {}", i, run_seed, execs, v.detail);
    let ev = json!({ "property_id": id, "tier": tier.name(), "seed": seed as i64, "level": prop.level(),
        "coverage": { "evaluations": i + 1, "distinct_nontrivial": 0, "rule": prop.rule(), "samples": [prop.sample(&cur)], "note": "batch stopped by a run that does not return; counts are lower bounds" },
        "assumptions": prop.assumptions(), "wall_s": t0.elapsed().as_secs_f64(), "violations": 1 });
    let evdir = verif_dir().join("evidence"); let _ = std::fs::create_dir_all(&evdir);
    if std::env::var("VERIF_EVIDENCE_OFF").is_err() { let _ = std::fs::write(evdir.join(format!("{}.json", id)), serde_json::to_string_pretty(&ev).unwrap()); }
    std::process::exit(1)
}

fn supervise<P: Prop>(prop: &Arc<P>, tier: Tier) -> ! {
    let id = prop.id();
    let t0 = Instant::now();
    let path = verif_dir().join("replays").join(format!(".slots-{}-{}", id, std::process::id()));
    slots::create(&path);
    let exe = std::env::current_exe().expect("current_exe");
    let st = std::process::Command::new(exe).args(std::env::args().skip(1)).env("VERIF_CHILD", "1").env("VERIF_SLOTS", &path).status().expect("spawn batch child");
    if st.code() == Some(3) { let _ = std::fs::remove_file(&path); confirm_hang(prop, tier, &format!("{}.hang", path.display()), t0); }
    if !child_crashed(&st) { let _ = std::fs::remove_file(&path); std::process::exit(st.code().unwrap()); }
    let inflight: Vec<u64> = slots::read(&path).into_iter().filter(|v| *v != 0).map(|v| v - 1).collect();
    let _ = std::fs::remove_file(&path);
    outln!("[{}] the batch process died ({}) with run indices {:?} in flight; probing each in its own process", id, st, inflight);
    let seed = verif_seed();
    for i in inflight {
        let run_seed = mix(seed, i);
        let case = prop.gen(run_seed, i, tier);
        if !crashes_in_subprocess(&**prop, &case, "find") { continue; }
        // minimise with one process per candidate
        let mut cur = case; let mut execs = 0; let ts = Instant::now();
        'outer: loop {
            for (n, cand) in prop.shrink(&cur).into_iter().enumerate() {
                if execs >= 60 || ts.elapsed().as_secs() > 150 { break 'outer; }
                execs += 1;
                if crashes_in_subprocess(&**prop, &cand, &format!("s{}", n)) { cur = cand; continue 'outer; }
            }
            break;
        }
        let v = Violation::new("crash", format!("executing this case kills the process ({}): stack overflow, abort or fatal signal inside the system under test", st));
        let p = write_replay(&**prop, &format!("{}", run_seed), run_seed, &cur, &v, &[]);
        outln!("VIOLATION property={} replay={}", id, p);
        outln!("  class=crash run_index={} run_seed={} shrink_execs={} {}", i, run_seed, execs, v.detail);
        let ev = json!({ "property_id": id, "tier": tier.name(), "seed": seed as i64, "level": prop.level(),
            "coverage": { "evaluations": i + 1, "distinct_nontrivial": 0, "rule": prop.rule(), "samples": [prop.sample(&cur)], "note": "batch aborted by a process crash; counts are lower bounds" },
            "assumptions": prop.assumptions(), "wall_s": t0.elapsed().as_secs_f64(), "violations": 1 });
        let evdir = verif_dir().join("evidence"); let _ = std::fs::create_dir_all(&evdir);
        if std::env::var("VERIF_EVIDENCE_OFF").is_err() { let _ = std::fs::write(evdir.join(format!("{}.json", id)), serde_json::to_string_pretty(&ev).unwrap()); }
        std::process::exit(1);
    }
    outln!("HARNESS-ERROR the batch process died ({}) and no in-flight run reproduces the crash in isolation", st);
    std::process::exit(2)
}

struct Agg {
    evaluations: u64,
    counters: BTreeMap<&'static str, u64>,
    nontrivial: HashSet<u64>,
    states: HashSet<u64>,
    sim_ns: u128,
    log_events: u64,
    first_by_class: BTreeMap<String, (u64, Value, Violation)>, // lowest run index per class
    violating_runs: u64,
    samples: BTreeMap<u64, Value>,
    hashes: BTreeMap<u64, u64>,
    harness_errors: Vec<String>,
    slowest: (f64, u64),
    suppressed_runs: u64,
}

pub fn run_check<P: Prop>(prop: P, tier: Tier) -> ! {
    install_panic_hook();
    let prop = Arc::new(prop);
    if std::env::var("VERIF_CHILD").is_err() { supervise(&prop, tier); }
    capture_stdio();
    slots::attach();
    let id = prop.id();
    let t0 = Instant::now();
    let seed = verif_seed();
    let budget = prop.budget(tier);
    let runs = std::env::var("VERIF_RUNS").ok().and_then(|s| s.parse().ok()).unwrap_or(budget.runs);
    let wall = std::env::var("VERIF_WALL_S").ok().and_then(|s| s.parse().ok()).unwrap_or(budget.wall_s);
    let workers: usize = std::env::var("VERIF_WORKERS").ok().and_then(|s| s.parse().ok()).unwrap_or(16);
    let hang_s: u64 = std::env::var("VERIF_HANG_S").ok().and_then(|s| s.parse().ok()).unwrap_or(240);
    outln!("[{}] tier={} VERIF_SEED={} runs<={} wall<={}s workers={}", id, tier.name(), seed, runs, wall, workers);

    // ---- known findings: replay each listed witness first
    let known = load_known(id);
    let mut known_report = Vec::new();
    let mut exit_violation = false;
    for k in &known {
        let case: P::Case = match serde_json::from_value(k.witness.clone()) { Ok(c) => c, Err(e) => { outln!("HARNESS-ERROR known finding {} witness does not deserialize: {}", k.id, e); std::process::exit(2) } };
        let r = run_fresh(&prop, &case, true);
        if let Some(h) = r.harness_panic { outln!("HARNESS-ERROR while replaying known finding {}: {}", k.id, h); std::process::exit(2); }
        let reproduced = r.violation.as_ref().map(|v| v.class == k.class).unwrap_or(false);
        if k.status == "known" {
            if reproduced { outln!("KNOWN-FINDING: property={} {} [{}] {}", id, k.id, k.class, k.what); }
            else if let Some(v) = &r.violation {
                // the listed witness now fails differently: that is a different violation and is reported
                let path = write_replay(&*prop, &format!("known-{}-changed", k.id), 0, &case, v, &r.ctx.log.lines);
                outln!("VIOLATION property={} replay={}", id, path);
                outln!("  class={} (listed witness {} used to fail as {}) {}", v.class, k.id, k.class, v.detail);
                exit_violation = true;
            } else { outln!("[{}] note: listed finding {} no longer reproduces on this tree", id, k.id); }
        } else if let Some(v) = &r.violation {
            let path = write_replay(&*prop, &format!("regressed-{}", k.id), 0, &case, v, &r.ctx.log.lines);
            outln!("VIOLATION property={} replay={}", id, path);
            outln!("  class={} (witness of fixed finding {} fails again) {}", v.class, k.id, v.detail);
            exit_violation = true;
        }
        known_report.push(json!({"id": k.id, "status": k.status, "class": k.class, "reproduced": reproduced}));
    }

    // ---- batch
    let agg = Arc::new(Mutex::new(Agg { evaluations: 0, counters: BTreeMap::new(), nontrivial: HashSet::new(), states: HashSet::new(), sim_ns: 0, log_events: 0,
        first_by_class: BTreeMap::new(), violating_runs: 0, samples: BTreeMap::new(), hashes: BTreeMap::new(), harness_errors: Vec::new(), slowest: (0.0, 0), suppressed_runs: 0 }));
    let known_arc = Arc::new(known.clone());
    let next = Arc::new(AtomicU64::new(0));
    let stop = Arc::new(AtomicBool::new(false));
    let slots: Arc<Vec<Mutex<Option<(u64, Instant)>>>> = Arc::new((0..workers).map(|_| Mutex::new(None)).collect());
    let deadline = t0 + Duration::from_secs(wall);
    let recheck = std::env::var("VERIF_RECHECK").ok().and_then(|s| s.parse().ok()).unwrap_or(budget.recheck).min(runs);
    let mut handles = Vec::new();
    for w in 0..workers {
        let (prop, agg, next, stop, slots, known_w) = (prop.clone(), agg.clone(), next.clone(), stop.clone(), slots.clone(), known_arc.clone());
        handles.push(std::thread::spawn(move || {
            loop {
                if stop.load(Ordering::Relaxed) || Instant::now() >= deadline { break; }
                let i = next.fetch_add(1, Ordering::Relaxed);
                if i >= runs { break; }
                let run_seed = mix(seed, i);
                *slots[w].lock().unwrap() = Some((i, Instant::now()));
                self::slots::set(w, i + 1);
                let case = match guard(|| prop.gen(run_seed, i, tier)) { Ok(c) => c, Err((loc, msg)) => { agg.lock().unwrap().harness_errors.push(format!("generator panicked for run {}: {} @ {}", i, msg, loc)); continue; } };
                let tr = Instant::now();
                let r = run_fresh(&prop, &case, false);
                let dur = tr.elapsed().as_secs_f64();
                *slots[w].lock().unwrap() = None;
                self::slots::set(w, 0);
                let mut a = agg.lock().unwrap();
                a.evaluations += 1;
                if dur > a.slowest.0 { a.slowest = (dur, i); }
                for (k, v) in &r.ctx.counters { *a.counters.entry(k).or_insert(0) += v; }
                for k in &r.ctx.nontrivial { if a.nontrivial.len() < 20_000_000 { a.nontrivial.insert(*k); } }
                for k in &r.ctx.states { if a.states.len() < 20_000_000 { a.states.insert(*k); } }
                a.sim_ns += r.ctx.sim_ns as u128;
                a.log_events += r.ctx.log.n;
                if i < recheck { a.hashes.insert(i, r.ctx.log.hash()); }
                if i < 3 { let mut cs = prop.sample(&case); let txt = cs.to_string(); if txt.len() > 40_000 { cs = json!({"truncated_case_json_bytes": txt.len(), "head": txt.chars().take(6000).collect::<String>()}); }
                    let s = json!({"run_index": i, "run_seed": run_seed, "case": cs, "events": r.ctx.log.n, "violation": r.violation.as_ref().map(|v| v.class.clone())}); a.samples.insert(i, s); }
                if let Some(h) = r.harness_panic { a.harness_errors.push(format!("run {} (seed {}): {}", i, run_seed, h)); }
                if let Some(v) = r.violation {
                    a.violating_runs += 1;
                    // every violating run is matched against the listed findings on its own (un-minimised) case
                    if known_w.iter().any(|k| k.status == "known" && k.class == v.class && prop.matches_known(&case, &v, &k.matcher)) { a.suppressed_runs += 1; continue; }
                    let cj = serde_json::to_value(&case).unwrap();
                    let replace = match a.first_by_class.get(&v.class) { Some((j, _, _)) => i < *j, None => true };
                    if replace { a.first_by_class.insert(v.class.clone(), (i, cj, v)); }
                }
            }
        }));
    }
    // watchdog
    loop {
        std::thread::sleep(Duration::from_millis(100));
        if handles.iter().all(|h| h.is_finished()) { break; }
        let stuck: Vec<(u64, Instant)> = slots.iter().filter_map(|s| *s.lock().unwrap()).collect();
        if stuck.iter().any(|(_, st)| st.elapsed().as_secs() >= hang_s) {
            // report the lowest run index among the runs that have been stuck for a while (not whichever the watchdog saw first)
            let mut cands: Vec<u64> = stuck.iter().filter(|(_, st)| st.elapsed().as_secs() * 2 >= hang_s).map(|(i, _)| *i).collect(); cands.sort();
            if let Some(&i) = cands.first() {
                {
                    let run_seed = mix(seed, i);
                    let case = prop.gen(run_seed, i, tier);
                    let dir = verif_dir().join("replays"); let _ = std::fs::create_dir_all(&dir);
                    let path = dir.join(format!("{}-hang-{}.json", id, run_seed));
                    let _ = std::fs::write(&path, serde_json::to_string_pretty(&json!({"property": id, "class": "hang", "run_seed": run_seed, "case": serde_json::to_value(&case).unwrap()})).unwrap());
                    outln!("[{}] run {} (seed {}) made no progress for {} s; case written to {}", id, i, run_seed, hang_s, path.display());
                    // the supervisor decides: a case that also fails to return in a process of its own is a violation
                    // (class `hang`), one that returns there was starved by the batch and is a harness error
                    if let Ok(sf) = std::env::var("VERIF_SLOTS") { let _ = std::fs::write(format!("{}.hang", sf), cands.iter().map(|c| c.to_string()).collect::<Vec<_>>().join(" ")); std::process::exit(3); }
                    outln!("HARNESS-ERROR no supervisor to confirm the hang");
                    std::process::exit(2);
                }
            }
        }
    }
    for h in handles { let _ = h.join(); }
    let batch_s = t0.elapsed().as_secs_f64();

    // ---- determinism re-check: same run seeds again, on other threads, event-log hashes must match
    let mut mismatches = Vec::new();
    let mut rechecked = 0u64;
    {
        let hashes = agg.lock().unwrap().hashes.clone();
        let items: Vec<(u64, u64)> = hashes.into_iter().collect();
        let items = Arc::new(items);
        let pos = Arc::new(AtomicU64::new(0));
        let mm = Arc::new(Mutex::new(Vec::new()));
        let mut hs = Vec::new();
        for _ in 0..workers.min(8) {
            let (items, pos, mm, prop) = (items.clone(), pos.clone(), mm.clone(), prop.clone());
            hs.push(std::thread::spawn(move || loop {
                let k = pos.fetch_add(1, Ordering::Relaxed) as usize;
                if k >= items.len() { break; }
                let (i, h) = items[k];
                let case = prop.gen(mix(seed, i), i, tier);
                let r = run_fresh(&prop, &case, false);
                if r.ctx.log.hash() != h { mm.lock().unwrap().push(i); }
            }));
        }
        for h in hs { let _ = h.join(); }
        rechecked = items.len() as u64;
        mismatches = mm.lock().unwrap().clone();
    }

    if let Ok(path) = std::env::var("VERIF_DUMP_HASHES") { let h = agg.lock().unwrap().hashes.clone(); let txt: String = h.iter().map(|(i, x)| format!("{} {:016x}\n", i, x)).collect(); let _ = std::fs::write(path, txt); }
    let mut a = agg.lock().unwrap();
    // ---- violations: match against known findings, minimise, write replay
    let mut reported = 0u64;
        let firsts: Vec<(String, (u64, Value, Violation))> = a.first_by_class.iter().map(|(k, v)| (k.clone(), v.clone())).collect();
    for (class, (i, cj, _v)) in firsts {
        let case: P::Case = serde_json::from_value(cj).unwrap();
        let (mut min_case, mut min_v, execs) = shrink_case(&prop, case.clone(), &class, 600, 90);
        if known.iter().any(|k| k.status == "known" && k.class == class && prop.matches_known(&min_case, &min_v, &k.matcher)) {
            // minimisation drifted into the region of a listed finding: report the original case instead
            min_case = case; min_v = run_fresh(&prop, &min_case, false).violation.unwrap_or(min_v);
        }
        let rr = run_fresh(&prop, &min_case, true);
        let path = write_replay(&*prop, &format!("{}", mix(seed, i)), mix(seed, i), &min_case, &min_v, &rr.ctx.log.lines);
        let again = rr.violation.as_ref().map(|v| v.class == class).unwrap_or(false);
        outln!("VIOLATION property={} replay={}", id, path);
        outln!("  class={} run_index={} run_seed={} shrink_execs={} replay_reproduces={}", class, i, mix(seed, i), execs, again);
        outln!("  {}", min_v.detail);
        reported += 1;
    }
    if reported > 0 { exit_violation = true; }

    // ---- evidence
    let wall_s = t0.elapsed().as_secs_f64();
    let mut faults = serde_json::Map::new(); let mut probes = serde_json::Map::new(); let mut classes = serde_json::Map::new(); let mut other = serde_json::Map::new();
    for (k, v) in &a.counters {
        if let Some(r) = k.strip_prefix("fault.") { faults.insert(r.to_string(), json!(v)); }
        else if let Some(r) = k.strip_prefix("probe.") { probes.insert(r.to_string(), json!(v)); }
        else if let Some(r) = k.strip_prefix("class.") { classes.insert(r.to_string(), json!(v)); }
        else { other.insert(k.to_string(), json!(v)); }
    }
    let zero_probes: Vec<String> = prop.expected_counters().into_iter().filter(|k| a.counters.get(k).copied().unwrap_or(0) == 0).map(|k| k.to_string()).collect();
    if !zero_probes.is_empty() { outln!("[{}] note: counters stuck at zero in this run: {:?}", id, zero_probes); }
    let ev = json!({
        "property_id": id, "tier": tier.name(), "seed": seed as i64, "level": prop.level(),
        "coverage": {
            "evaluations": a.evaluations, "distinct_nontrivial": a.nontrivial.len(), "rule": prop.rule(),
            "samples": a.samples.values().cloned().collect::<Vec<_>>(),
            "runs_per_hour": if batch_s > 0.0 { (a.evaluations as f64 / batch_s * 3600.0) as u64 } else { 0 },
            "seeds_per_hour": if batch_s > 0.0 { (a.evaluations as f64 / batch_s * 3600.0) as u64 } else { 0 },
            "simulated_time_s": a.sim_ns as f64 / 1e9,
            "event_log_entries": a.log_events,
            "faults_fired": faults, "probes": probes, "run_classes": classes, "other_counters": other,
            "distinct_states": a.states.len(),
            "distinct_states_rule": "hash of the reference-model state after each step (state-machine engines) or hash of the observed interleaving of source pushes and consumer deliveries per schedule (threaded engines), capped at 4096 per run",
            "real_vs_stub": prop.real_vs_stub(),
            "determinism_recheck": {"runs_executed_twice": rechecked, "event_log_hash_mismatches": mismatches.len()},
            "known_findings_replayed": known_report, "violating_runs_suppressed_by_known_findings": a.suppressed_runs,
            "violating_runs_in_batch": a.violating_runs,
            "zero_probes": zero_probes, "slowest_run": {"seconds": a.slowest.0, "run_index": a.slowest.1},
            "exhaustive": false
        },
        "assumptions": prop.assumptions(), "wall_s": wall_s, "violations": reported
    });
    let evdir = verif_dir().join("evidence"); let _ = std::fs::create_dir_all(&evdir);
    if std::env::var("VERIF_EVIDENCE_OFF").is_err() { std::fs::write(evdir.join(format!("{}.json", id)), serde_json::to_string_pretty(&ev).unwrap()).expect("write evidence"); }
    outln!("[{}] evaluations={} distinct_nontrivial={} violating_runs={} reported={} suppressed_runs={} recheck={}/{} slowest={:.1}s@{} wall={:.1}s", id, a.evaluations, a.nontrivial.len(), a.violating_runs, reported, a.suppressed_runs, rechecked - mismatches.len() as u64, rechecked, a.slowest.0, a.slowest.1, wall_s);
    if !a.harness_errors.is_empty() {
        for e in a.harness_errors.iter().take(5) { outln!("HARNESS-ERROR {}", e); }
        std::process::exit(2);
    }
    if !mismatches.is_empty() { outln!("HARNESS-ERROR nondeterminism: run indices {:?} produced different event logs on re-execution", &mismatches[..mismatches.len().min(10)]); std::process::exit(2); }
    a.harness_errors.clear();
    drop(a);
    std::process::exit(if exit_violation { 1 } else { 0 })
}

pub fn replay_file<P: Prop>(prop: P, path: &str) -> ! {
    install_panic_hook();
    let prop = Arc::new(prop);
    if std::env::var("VERIF_CHILD").is_err() {
        let exe = std::env::current_exe().expect("current_exe");
        let is_hang = std::fs::read_to_string(path).ok().and_then(|t| serde_json::from_str::<Value>(&t).ok()).map(|v| v["class"] == "hang").unwrap_or(false);
        if is_hang {
            let c = hang_confirm_s();
            match spawn_self(&["replay-child".to_string(), path.to_string()], &[], c) {
                None => { outln!("VIOLATION property={} replay={}", prop.id(), path); outln!("  class=hang replaying this case does not return within {} s", c); std::process::exit(1) }
                Some(st) if child_crashed(&st) => { outln!("VIOLATION property={} replay={}", prop.id(), path); outln!("  class=crash replaying this case kills the process ({})", st); std::process::exit(1) }
                Some(st) => { if st.code() == Some(0) { outln!("[{}] replay of {}: returns, no violation", prop.id(), path); } std::process::exit(st.code().unwrap()) }
            }
        }
        let st = std::process::Command::new(exe).args(["replay-child", path]).env("VERIF_CHILD", "1").status().expect("spawn replay child");
        if child_crashed(&st) { outln!("VIOLATION property={} replay={}", prop.id(), path); outln!("  class=crash replaying this case kills the process ({})", st); std::process::exit(1); }
        std::process::exit(st.code().unwrap());
    }
    capture_stdio();
    let txt = std::fs::read_to_string(path).unwrap_or_else(|e| { outln!("HARNESS-ERROR cannot read {}: {}", path, e); std::process::exit(2) });
    let v: Value = serde_json::from_str(&txt).unwrap_or_else(|e| { outln!("HARNESS-ERROR bad replay file: {}", e); std::process::exit(2) });
    let case: P::Case = serde_json::from_value(v["case"].clone()).unwrap_or_else(|e| { outln!("HARNESS-ERROR replay case does not deserialize: {}", e); std::process::exit(2) });
    let r = run_fresh(&prop, &case, true);
    for l in &r.ctx.log.lines { outln!("  | {}", l); }
    if let Some(h) = r.harness_panic { outln!("HARNESS-ERROR {}", h); std::process::exit(2); }
    match r.violation {
        Some(viol) => { outln!("VIOLATION property={} replay={}", prop.id(), path); outln!("  class={} {}", viol.class, viol.detail); std::process::exit(1) }
        None => { outln!("[{}] replay of {}: no violation (event log hash {:016x})", prop.id(), path, r.ctx.log.hash()); std::process::exit(0) }
    }
}

/// run one generated case by run seed with the log shown (debugging aid)
pub fn run_one<P: Prop>(prop: P, run_index: u64, tier: Tier) -> ! {
    capture_stdio(); install_panic_hook();
    let prop = Arc::new(prop);
    let run_seed = mix(verif_seed(), run_index);
    let case = prop.gen(run_seed, run_index, tier);
    outln!("{}", serde_json::to_string(&case).unwrap());
    let r = run_fresh(&prop, &case, true);
    for l in &r.ctx.log.lines { outln!("  | {}", l); }
    outln!("violation={:?} harness_panic={:?} counters={:?}", r.violation, r.harness_panic, r.ctx.counters);
    std::process::exit(0)
}

// ---- generic shrinking helpers
pub fn shrink_vec<T: Clone>(xs: &[T]) -> Vec<Vec<T>> {
    let n = xs.len();
    let mut out = Vec::new();
    if n == 0 { return out; }
    let mut chunk = n / 2;
    while chunk >= 1 {
        let mut start = 0;
        while start < n {
            let end = (start + chunk).min(n);
            let mut v = Vec::with_capacity(n - (end - start));
            v.extend_from_slice(&xs[..start]); v.extend_from_slice(&xs[end..]);
            out.push(v);
            start += chunk;
        }
        if chunk == 1 { break; }
        chunk /= 2;
    }
    out
}
