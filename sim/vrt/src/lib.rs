//! kolibrie_verif_rt: runtime of the deterministic simulation (PRNG, event log, interposers, simulated clock,
//! std-or-shuttle wrappers, batch harness). Linked into /repo code only under cfg(kolibrie_verif).
pub mod rng;
pub mod log;
pub mod hash;
pub mod sim;
pub mod harness;
pub use sim::{clock, hybrid_clock, sync, thread, time, in_sim, set_sim};
pub use libc;
