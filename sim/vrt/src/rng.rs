//! One integer decides everything: splitmix64-seeded xoshiro256**, with labelled sub-streams.
#[derive(Clone, Debug)]
pub struct Rng { s: [u64; 4] }

pub fn splitmix(x: &mut u64) -> u64 {
    *x = x.wrapping_add(0x9E3779B97F4A7C15);
    let mut z = *x;
    z = (z ^ (z >> 30)).wrapping_mul(0xBF58476D1CE4E5B9);
    z = (z ^ (z >> 27)).wrapping_mul(0x94D049BB133111EB);
    z ^ (z >> 31)
}
pub fn mix(a: u64, b: u64) -> u64 {
    let mut x = a ^ b.wrapping_mul(0xD6E8FEB86659FD93).rotate_left(23);
    let r = splitmix(&mut x);
    r ^ splitmix(&mut x)
}
pub fn label(s: &str) -> u64 {
    let mut h: u64 = 0xcbf29ce484222325;
    for b in s.bytes() { h ^= b as u64; h = h.wrapping_mul(0x100000001b3); }
    h
}
impl Rng {
    pub fn new(seed: u64) -> Rng {
        let mut x = seed;
        Rng { s: [splitmix(&mut x), splitmix(&mut x), splitmix(&mut x), splitmix(&mut x)] }
    }
    /// independent sub-stream: adding a draw in one stream does not shift the others
    pub fn sub(seed: u64, name: &str) -> Rng { Rng::new(mix(seed, label(name))) }
    pub fn next(&mut self) -> u64 {
        let s = &mut self.s;
        let r = s[1].wrapping_mul(5).rotate_left(7).wrapping_mul(9);
        let t = s[1] << 17;
        s[2] ^= s[0]; s[3] ^= s[1]; s[1] ^= s[2]; s[0] ^= s[3]; s[2] ^= t; s[3] = s[3].rotate_left(45);
        r
    }
    /// uniform in 0..n (n > 0)
    pub fn below(&mut self, n: u64) -> u64 { if n <= 1 { 0 } else { ((self.next() as u128 * n as u128) >> 64) as u64 } }
    pub fn usize(&mut self, n: usize) -> usize { self.below(n as u64) as usize }
    /// inclusive range
    pub fn range(&mut self, lo: i64, hi: i64) -> i64 { lo + self.below((hi - lo + 1) as u64) as i64 }
    pub fn chance(&mut self, num: u64, den: u64) -> bool { self.below(den) < num }
    pub fn f64(&mut self) -> f64 { (self.next() >> 11) as f64 / (1u64 << 53) as f64 }
    pub fn pick<'a, T>(&mut self, xs: &'a [T]) -> &'a T { &xs[self.usize(xs.len())] }
    pub fn shuffle<T>(&mut self, xs: &mut [T]) { for i in (1..xs.len()).rev() { let j = self.usize(i + 1); xs.swap(i, j); } }
    pub fn weighted(&mut self, w: &[u32]) -> usize {
        let tot: u64 = w.iter().map(|&x| x as u64).sum();
        let mut r = self.below(tot.max(1));
        for (i, &x) in w.iter().enumerate() { if r < x as u64 { return i; } r -= x as u64; }
        w.len() - 1
    }
}
