//! Hash keys and CPU count as simulator-owned sources (symbol interposition; the symbols themselves are
//! emitted into the harness *binary* by `interpose!()` so the static link always prefers them).
use std::cell::Cell;
use std::sync::atomic::{AtomicU64, Ordering};
thread_local! {
    static HASH_STATE: Cell<u64> = const { Cell::new(0x5EED_0000_0000_0001) };
    static CPUS: Cell<i64> = const { Cell::new(0) };
}
pub static GETRANDOM_CALLS: AtomicU64 = AtomicU64::new(0);
/// must be called first thing on a fresh OS thread, before any HashMap exists on it
pub fn set_hash_seed(seed: u64) { HASH_STATE.with(|c| c.set(seed ^ 0xA5A5_5A5A_DEAD_BEEF)); }
pub fn set_cpus(n: i64) { CPUS.with(|c| c.set(n)); }
pub fn cpus() -> i64 { CPUS.with(|c| c.get()) }
pub fn fill(buf: *mut u8, len: usize) {
    GETRANDOM_CALLS.fetch_add(1, Ordering::Relaxed);
    HASH_STATE.with(|c| {
        let mut x = c.get();
        for i in 0..len { let r = crate::rng::splitmix(&mut x); unsafe { *buf.add(i) = (r >> 32) as u8; } }
        c.set(x);
    });
}
#[macro_export]
macro_rules! interpose {
    () => {
        #[no_mangle]
        pub unsafe extern "C" fn getrandom(buf: *mut $crate::libc::c_void, len: $crate::libc::size_t, _flags: $crate::libc::c_uint) -> $crate::libc::ssize_t {
            $crate::hash::fill(buf as *mut u8, len as usize);
            len as $crate::libc::ssize_t
        }
        #[no_mangle]
        pub unsafe extern "C" fn sysconf(name: $crate::libc::c_int) -> $crate::libc::c_long {
            if name == $crate::libc::_SC_NPROCESSORS_ONLN || name == $crate::libc::_SC_NPROCESSORS_CONF {
                let n = $crate::hash::cpus();
                if n > 0 { return n as $crate::libc::c_long; }
            }
            extern "C" { fn __sysconf(name: $crate::libc::c_int) -> $crate::libc::c_long; }
            __sysconf(name)
        }
    };
}

/// run `f` on a fresh OS thread whose std hash keys derive from `seed` (each such execution is exactly replayable)
pub fn with_hash_seed<T: Send>(seed: u64, f: impl FnOnce() -> T + Send) -> T {
    std::thread::scope(|s| {
        let h = std::thread::Builder::new().stack_size(64 << 20).spawn_scoped(s, move || { set_hash_seed(seed); f() }).expect("spawn");
        match h.join() { Ok(v) => v, Err(e) => std::panic::resume_unwind(e) }
    })
}
