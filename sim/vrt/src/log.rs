//! Event log: always hashed (determinism re-check), text kept only when asked. Never draws from a PRNG, never reads a clock.
pub struct Log { h: u64, pub n: u64, pub keep: bool, pub lines: Vec<String> }
impl Log {
    pub fn new(keep: bool) -> Log { Log { h: 0xcbf29ce484222325, n: 0, keep, lines: Vec::new() } }
    pub fn ev(&mut self, s: &str) {
        for b in s.bytes() { self.h ^= b as u64; self.h = self.h.wrapping_mul(0x100000001b3); }
        self.h ^= 0xff; self.h = self.h.wrapping_mul(0x100000001b3);
        self.n += 1;
        if self.keep && self.lines.len() < 4000 { self.lines.push(s.to_string()); }
    }
    pub fn hash(&self) -> u64 { self.h }
}
#[macro_export]
macro_rules! ev { ($log:expr, $($arg:tt)*) => { $log.ev(&format!($($arg)*)) } }

pub fn fnv(s: &str) -> u64 { let mut h: u64 = 0xcbf29ce484222325; for b in s.bytes() { h ^= b as u64; h = h.wrapping_mul(0x100000001b3); } h }
