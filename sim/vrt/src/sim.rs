//! std-or-shuttle primitives. Backend is chosen at construction: shuttle when the harness has marked the current
//! OS thread as running a simulation, std otherwise (so a cfg(kolibrie_verif) build behaves like the shipped one
//! whenever no simulation runs).
use std::cell::Cell;
thread_local! { static IN_SIM: Cell<bool> = const { Cell::new(false) }; }
pub fn set_sim(on: bool) { IN_SIM.with(|c| c.set(on)); }
pub fn in_sim() -> bool { IN_SIM.with(|c| c.get()) }

pub mod clock {
    //! one monotone counter of simulated nanoseconds per run (thread-local: a run = one OS thread, shuttle tasks are coroutines on it)
    use std::cell::{Cell, RefCell};
    thread_local! {
        static NOW: Cell<u64> = const { Cell::new(0) };
        static INSTALLED: Cell<bool> = const { Cell::new(false) };
        static READS: Cell<u64> = const { Cell::new(0) };
        static TIMEOUTS: Cell<u64> = const { Cell::new(0) };
        static WAKERS: RefCell<Vec<Box<dyn Fn()>>> = const { RefCell::new(Vec::new()) };
    }
    pub fn install(start_ns: u64) { NOW.with(|c| c.set(start_ns)); INSTALLED.with(|c| c.set(true)); READS.with(|c| c.set(0)); WAKERS.with(|w| w.borrow_mut().clear()); }
    pub fn uninstall() { INSTALLED.with(|c| c.set(false)); WAKERS.with(|w| w.borrow_mut().clear()); }
    pub fn installed() -> bool { INSTALLED.with(|c| c.get()) }
    pub fn now_ns() -> u64 { READS.with(|c| c.set(c.get() + 1)); NOW.with(|c| c.get()) }
    pub fn peek_ns() -> u64 { NOW.with(|c| c.get()) }
    pub fn reads() -> u64 { READS.with(|c| c.get()) }
    /// probe: a simulated deadline (recv_timeout) actually expired
    pub fn note_timeout() { TIMEOUTS.with(|c| c.set(c.get() + 1)); }
    pub fn take_timeouts() -> u64 { TIMEOUTS.with(|c| { let v = c.get(); c.set(0); v }) }
    /// waiters on simulated deadlines register a notifier that is called on every advance
    pub fn on_advance(f: Box<dyn Fn()>) { WAKERS.with(|w| w.borrow_mut().push(f)); }
    pub fn advance(d_ns: u64) {
        NOW.with(|c| c.set(c.get().saturating_add(d_ns)));
        let n = WAKERS.with(|w| w.borrow().len());
        for i in 0..n {
            // call without holding the borrow across user code that might register more wakers
            let f: *const dyn Fn() = WAKERS.with(|w| &*w.borrow()[i] as *const dyn Fn());
            unsafe { (*f)(); }
        }
    }
}

pub mod sync {
    use super::in_sim;
    use std::ops::{Deref, DerefMut};
    #[derive(Debug)] pub struct Poisoned;
    impl std::fmt::Display for Poisoned { fn fmt(&self, f: &mut std::fmt::Formatter<'_>) -> std::fmt::Result { write!(f, "poisoned lock") } }
    impl std::error::Error for Poisoned {}
    pub enum Mutex<T> { Std(std::sync::Mutex<T>), Sim(shuttle::sync::Mutex<T>) }
    pub enum MutexGuard<'a, T> { Std(std::sync::MutexGuard<'a, T>), Sim(shuttle::sync::MutexGuard<'a, T>) }
    impl<T: std::fmt::Debug> std::fmt::Debug for Mutex<T> { fn fmt(&self, f: &mut std::fmt::Formatter<'_>) -> std::fmt::Result { write!(f, "Mutex(..)") } }
    impl<T: Default> Default for Mutex<T> { fn default() -> Self { Mutex::new(T::default()) } }
    impl<T> Mutex<T> {
        pub fn new(t: T) -> Self { if in_sim() { Mutex::Sim(shuttle::sync::Mutex::new(t)) } else { Mutex::Std(std::sync::Mutex::new(t)) } }
        pub fn lock(&self) -> Result<MutexGuard<'_, T>, Poisoned> {
            match self {
                Mutex::Std(m) => m.lock().map(MutexGuard::Std).map_err(|_| Poisoned),
                Mutex::Sim(m) => m.lock().map(MutexGuard::Sim).map_err(|_| Poisoned),
            }
        }
        pub fn try_lock(&self) -> Result<MutexGuard<'_, T>, Poisoned> {
            match self {
                Mutex::Std(m) => m.try_lock().map(MutexGuard::Std).map_err(|_| Poisoned),
                Mutex::Sim(m) => m.try_lock().map(MutexGuard::Sim).map_err(|_| Poisoned),
            }
        }
        pub fn into_inner(self) -> Result<T, Poisoned> {
            match self { Mutex::Std(m) => m.into_inner().map_err(|_| Poisoned), Mutex::Sim(m) => m.into_inner().map_err(|_| Poisoned) }
        }
    }
    impl<T> Deref for MutexGuard<'_, T> { type Target = T; fn deref(&self) -> &T { match self { MutexGuard::Std(g) => g, MutexGuard::Sim(g) => g } } }
    impl<T> DerefMut for MutexGuard<'_, T> { fn deref_mut(&mut self) -> &mut T { match self { MutexGuard::Std(g) => g, MutexGuard::Sim(g) => g } } }

    pub mod mpsc {
        use super::super::in_sim;
        #[derive(Debug)] pub struct SendError<T>(pub T);
        #[derive(Debug, PartialEq, Eq, Clone, Copy)] pub struct RecvError;
        #[derive(Debug, PartialEq, Eq, Clone, Copy)] pub enum TryRecvError { Empty, Disconnected }
        pub enum Sender<T> { Std(std::sync::mpsc::Sender<T>), Sim(shuttle::sync::mpsc::Sender<T>) }
        pub enum Receiver<T> { Std(std::sync::mpsc::Receiver<T>), Sim(shuttle::sync::mpsc::Receiver<T>) }
        pub fn channel<T>() -> (Sender<T>, Receiver<T>) {
            if in_sim() { let (s, r) = shuttle::sync::mpsc::channel(); (Sender::Sim(s), Receiver::Sim(r)) }
            else { let (s, r) = std::sync::mpsc::channel(); (Sender::Std(s), Receiver::Std(r)) }
        }
        impl<T> Clone for Sender<T> { fn clone(&self) -> Self { match self { Sender::Std(s) => Sender::Std(s.clone()), Sender::Sim(s) => Sender::Sim(s.clone()) } } }
        impl<T> Sender<T> {
            pub fn send(&self, t: T) -> Result<(), SendError<T>> {
                match self { Sender::Std(s) => s.send(t).map_err(|e| SendError(e.0)), Sender::Sim(s) => s.send(t).map_err(|e| SendError(e.0)) }
            }
        }
        impl<T> Receiver<T> {
            pub fn recv(&self) -> Result<T, RecvError> { match self { Receiver::Std(r) => r.recv().map_err(|_| RecvError), Receiver::Sim(r) => r.recv().map_err(|_| RecvError) } }
            pub fn try_recv(&self) -> Result<T, TryRecvError> {
                match self {
                    Receiver::Std(r) => r.try_recv().map_err(|e| match e { std::sync::mpsc::TryRecvError::Empty => TryRecvError::Empty, _ => TryRecvError::Disconnected }),
                    Receiver::Sim(r) => r.try_recv().map_err(|e| match e { std::sync::mpsc::TryRecvError::Empty => TryRecvError::Empty, _ => TryRecvError::Disconnected }),
                }
            }
            pub fn iter(&self) -> impl Iterator<Item = T> + '_ { std::iter::from_fn(move || self.recv().ok()) }
        }
    }
}

pub mod thread {
    use super::in_sim;
    pub enum JoinHandle<T> { Std(std::thread::JoinHandle<T>), Sim(shuttle::thread::JoinHandle<T>) }
    impl<T> JoinHandle<T> {
        pub fn join(self) -> std::thread::Result<T> { match self { JoinHandle::Std(h) => h.join(), JoinHandle::Sim(h) => h.join() } }
    }
    pub fn spawn<F, T>(f: F) -> JoinHandle<T> where F: FnOnce() -> T + Send + 'static, T: Send + 'static {
        if in_sim() { JoinHandle::Sim(shuttle::thread::spawn(f)) } else { JoinHandle::Std(std::thread::spawn(f)) }
    }
    pub fn sleep(d: std::time::Duration) {
        // inside a simulation: a plain scheduling point (simulated time does not pass by itself); unlike yield_now it does not ask a
        // PCT scheduler to lower the caller's priority
        if in_sim() { shuttle::thread::sleep(d) } else { std::thread::sleep(d) }
    }
    pub fn yield_now() { if in_sim() { shuttle::thread::yield_now() } else { std::thread::yield_now() } }
}

pub mod time {
    use std::time::Duration;
    /// `Instant` that reads the simulated clock when one is installed on this OS thread, the real one otherwise
    #[derive(Clone, Copy, Debug)]
    pub enum Instant { Real(std::time::Instant), Sim(u64) }
    impl Instant {
        pub fn now() -> Self { if super::clock::installed() { Instant::Sim(super::clock::now_ns()) } else { Instant::Real(std::time::Instant::now()) } }
        pub fn elapsed(&self) -> Duration {
            match self { Instant::Real(i) => i.elapsed(), Instant::Sim(t) => Duration::from_nanos(super::clock::now_ns().saturating_sub(*t)) }
        }
        pub fn duration_since(&self, earlier: Instant) -> Duration {
            match (self, earlier) { (Instant::Real(a), Instant::Real(b)) => a.duration_since(b), (Instant::Sim(a), Instant::Sim(b)) => Duration::from_nanos(a.saturating_sub(b)), _ => Duration::ZERO }
        }
    }
}

pub mod hybrid_clock {
    //! what `SystemHybridClock::now()` reads under cfg(kolibrie_verif) when a simulation installed a script:
    //! numbered readings, a fixed step per reading, and one optional one-hour jump at reading `jump_at`.
    use std::cell::Cell;
    use std::time::{Duration, Instant};
    thread_local! {
        static ON: Cell<bool> = const { Cell::new(false) };
        static BASE: Cell<Option<Instant>> = const { Cell::new(None) };
        static NANOS: Cell<u64> = const { Cell::new(0) };
        static STEP: Cell<u64> = const { Cell::new(0) };
        static READS: Cell<u64> = const { Cell::new(0) };
        static JUMP_AT: Cell<u64> = const { Cell::new(0) };
        static JUMPED: Cell<bool> = const { Cell::new(false) };
    }
    pub fn install(step_ns: u64, jump_at: u64) { ON.with(|c| c.set(true)); BASE.with(|b| if b.get().is_none() { b.set(Some(Instant::now())) }); NANOS.with(|c| c.set(0)); STEP.with(|c| c.set(step_ns)); READS.with(|c| c.set(0)); JUMP_AT.with(|c| c.set(jump_at)); JUMPED.with(|c| c.set(false)); }
    pub fn uninstall() { ON.with(|c| c.set(false)); }
    pub fn reads() -> u64 { READS.with(|c| c.get()) }
    pub fn jumped() -> bool { JUMPED.with(|c| c.get()) }
    pub fn elapsed_ns() -> u64 { NANOS.with(|c| c.get()) }
    pub fn now() -> Option<Instant> {
        if !ON.with(|c| c.get()) { return None; }
        let r = READS.with(|c| { c.set(c.get() + 1); c.get() });
        if r == JUMP_AT.with(|c| c.get()) { NANOS.with(|c| c.set(c.get() + 3_600_000_000_000)); JUMPED.with(|c| c.set(true)); }
        let n = NANOS.with(|c| { let v = c.get(); c.set(v + STEP.with(|s| s.get())); v });
        Some(BASE.with(|b| b.get().unwrap()) + Duration::from_nanos(n))
    }
}
