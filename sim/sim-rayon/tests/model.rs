//! self-test of the pool model: whatever the PRNG decides, order-insensitive results equal the sequential ones and
//! ordered collections keep index order (rayon's contract)
use rayon::prelude::*;
use std::collections::{BTreeSet, HashSet};
#[test]
fn ordered_collect_and_chunks_keep_index_order() {
    for seed in 0..300u64 {
        for threads in [1usize, 2, 3, 8, 16] {
            rayon::sim_configure(seed, threads);
            let v: Vec<u32> = (0..97).collect();
            let m: Vec<u32> = v.par_iter().map(|x| x * 2).filter(|x| x % 3 != 0).collect();
            assert_eq!(m, v.iter().map(|x| x * 2).filter(|x| x % 3 != 0).collect::<Vec<_>>());
            let c: Vec<Vec<u32>> = v.par_chunks(10).map(|c| c.to_vec()).collect();
            assert_eq!(c, v.chunks(10).map(|c| c.to_vec()).collect::<Vec<_>>());
            let ce: Vec<Vec<u32>> = v.par_chunks_exact(10).map(|c| c.to_vec()).collect();
            assert_eq!(ce.len(), 9);
            let fm: Vec<u32> = v.clone().into_par_iter().flat_map_iter(|x| vec![x, x]).collect();
            assert_eq!(fm.len(), 194); assert!(fm.windows(2).all(|w| w[0] <= w[1]));
            let e: Vec<(usize, u32)> = v.par_iter().cloned().enumerate().collect();
            assert!(e.iter().all(|(i, x)| *i as u32 == *x));
        }
    }
    rayon::sim_reset();
}
#[test]
fn fold_reduce_and_unordered_sources() {
    for seed in 0..300u64 {
        rayon::sim_configure(seed, 1 + (seed as usize % 16));
        let v: Vec<u64> = (1..=200).collect();
        let s: u64 = v.par_iter().fold(|| 0u64, |a, x| a + x).reduce(|| 0, |a, b| a + b);
        assert_eq!(s, 20100);
        let hs: HashSet<u64> = v.iter().copied().collect();
        let out: BTreeSet<u64> = hs.par_iter().map(|x| x + 1).collect();
        assert_eq!(out.len(), 200);
        let cat: String = vec!["a", "b", "c", "d", "e"].into_par_iter().map(|x| x.to_string()).reduce(String::new, |a, b| a + &b);
        assert_eq!(cat, "abcde"); // associative, non-commutative: adjacent combination keeps order
        assert_eq!(v.par_iter().count(), 200);
        assert_eq!(v.par_iter().copied().max(), Some(200));
        let st = rayon::sim_stats(); assert!(st.consumes > 0);
    }
    rayon::sim_reset();
}
