//! sim-rayon: a seeded, single-threaded model of the rayon subset Kolibrie uses (lib name `rayon`).
//!
//! A parallel iterator is a vector of source items plus a fused per-item pipeline. At the consuming call the items
//! are cut into J contiguous jobs (J and the cut points drawn from the run's PRNG, 1 <= J <= 2T), jobs run one at a
//! time in a PRNG-chosen order on the calling thread, each job runs the whole pipeline per item. `fold` gives every
//! job its own accumulator from `identity()`, `reduce` combines adjacent partial results in a PRNG-chosen association.
//! Ordered collections are reassembled in index order; unordered sources (HashSet) in completion order.
//! Every such execution is within rayon's documented contract.
use std::cell::{Cell, RefCell};

#[derive(Clone, Copy, Debug, Default)]
pub struct Stats { pub consumes: u64, pub jobs: u64, pub split_consumes: u64, pub out_of_order: u64, pub folds: u64, pub reduces: u64, pub nested: u64 }

thread_local! {
    static RNG: Cell<u64> = const { Cell::new(0) };
    static THREADS: Cell<usize> = const { Cell::new(1) };
    static ACTIVE: Cell<bool> = const { Cell::new(false) };
    static DEPTH: Cell<u32> = const { Cell::new(0) };
    static STATS: RefCell<Stats> = RefCell::new(Stats::default());
}
/// install the pool model for the current OS thread (one run = one OS thread)
pub fn sim_configure(seed: u64, threads: usize) {
    RNG.with(|r| r.set(seed | 1)); THREADS.with(|t| t.set(threads.max(1))); ACTIVE.with(|a| a.set(true)); STATS.with(|s| *s.borrow_mut() = Stats::default());
}
pub fn sim_reset() { ACTIVE.with(|a| a.set(false)); THREADS.with(|t| t.set(1)); }
pub fn sim_stats() -> Stats { STATS.with(|s| *s.borrow()) }
fn draw(n: usize) -> usize {
    if n <= 1 { return 0; }
    RNG.with(|r| {
        let mut x = r.get();
        x = x.wrapping_add(0x9E3779B97F4A7C15);
        r.set(x);
        let mut z = x;
        z = (z ^ (z >> 30)).wrapping_mul(0xBF58476D1CE4E5B9);
        z = (z ^ (z >> 27)).wrapping_mul(0x94D049BB133111EB);
        z ^= z >> 31;
        ((z as u128 * n as u128) >> 64) as usize
    })
}
pub fn current_num_threads() -> usize { THREADS.with(|t| t.get()) }
pub mod str {}

/// cut `n` items into jobs: returns the job boundaries (start indices, ascending, first = 0) and an execution order
fn plan(n: usize) -> (Vec<usize>, Vec<usize>) {
    if n == 0 { return (vec![], vec![]); }
    if !ACTIVE.with(|a| a.get()) { return (vec![0], vec![0]); }
    let t = current_num_threads();
    let maxj = (2 * t).min(n);
    let j = 1 + draw(maxj);
    let mut cuts: Vec<usize> = vec![0];
    // j-1 distinct cut points in 1..n
    let mut tries = 0;
    while cuts.len() < j && tries < 8 * j { let c = 1 + draw(n - 1); if !cuts.contains(&c) { cuts.push(c); } tries += 1; }
    cuts.sort();
    let k = cuts.len();
    let mut order: Vec<usize> = (0..k).collect();
    for i in (1..k).rev() { let r = draw(i + 1); order.swap(i, r); }
    STATS.with(|s| { let mut s = s.borrow_mut(); s.consumes += 1; s.jobs += k as u64; if k > 1 { s.split_consumes += 1; } if order.windows(2).any(|w| w[0] > w[1]) { s.out_of_order += 1; } if DEPTH.with(|d| d.get()) > 0 { s.nested += 1; } });
    (cuts, order)
}

pub mod iter {
    use super::*;
    pub trait Pipe<S> { type Out; fn feed(&self, s: S, sink: &mut dyn FnMut(Self::Out)); }
    pub struct Id;
    impl<S> Pipe<S> for Id { type Out = S; #[inline] fn feed(&self, s: S, sink: &mut dyn FnMut(S)) { sink(s) } }
    pub struct Map<P, F>(P, F);
    impl<S, P: Pipe<S>, U, F: Fn(P::Out) -> U> Pipe<S> for Map<P, F> { type Out = U; #[inline] fn feed(&self, s: S, sink: &mut dyn FnMut(U)) { self.0.feed(s, &mut |x| sink((self.1)(x))) } }
    pub struct Filter<P, F>(P, F);
    impl<S, P: Pipe<S>, F: Fn(&P::Out) -> bool> Pipe<S> for Filter<P, F> { type Out = P::Out; #[inline] fn feed(&self, s: S, sink: &mut dyn FnMut(P::Out)) { self.0.feed(s, &mut |x| if (self.1)(&x) { sink(x) }) } }
    pub struct FilterMap<P, F>(P, F);
    impl<S, P: Pipe<S>, U, F: Fn(P::Out) -> Option<U>> Pipe<S> for FilterMap<P, F> { type Out = U; #[inline] fn feed(&self, s: S, sink: &mut dyn FnMut(U)) { self.0.feed(s, &mut |x| if let Some(y) = (self.1)(x) { sink(y) }) } }
    pub struct FlatMap<P, F>(P, F);
    impl<S, P: Pipe<S>, U: IntoIterator, F: Fn(P::Out) -> U> Pipe<S> for FlatMap<P, F> { type Out = U::Item; #[inline] fn feed(&self, s: S, sink: &mut dyn FnMut(U::Item)) { self.0.feed(s, &mut |x| for y in (self.1)(x) { sink(y) }) } }

    pub struct Par<S, P> { pub(crate) src: Vec<S>, pub(crate) ordered: bool, pub(crate) pipe: P }

    impl<'a, S, P: Pipe<S, Out = &'a T>, T: 'a + Clone> Par<S, P> {
        pub fn cloned(self) -> Par<S, Map<P, fn(&'a T) -> T>> { self.map(<T as Clone>::clone as fn(&'a T) -> T) }
    }
    impl<'a, S, P: Pipe<S, Out = &'a T>, T: 'a + Copy> Par<S, P> {
        pub fn copied(self) -> Par<S, Map<P, fn(&'a T) -> T>> { fn cp<T: Copy>(x: &T) -> T { *x } self.map(cp::<T> as fn(&'a T) -> T) }
    }
    impl<S, P: Pipe<S>> Par<S, P> {
        pub fn map<U, F: Fn(P::Out) -> U + Sync + Send>(self, f: F) -> Par<S, Map<P, F>> { Par { src: self.src, ordered: self.ordered, pipe: Map(self.pipe, f) } }
        pub fn filter<F: Fn(&P::Out) -> bool + Sync + Send>(self, f: F) -> Par<S, Filter<P, F>> { Par { src: self.src, ordered: self.ordered, pipe: Filter(self.pipe, f) } }
        pub fn filter_map<U, F: Fn(P::Out) -> Option<U> + Sync + Send>(self, f: F) -> Par<S, FilterMap<P, F>> { Par { src: self.src, ordered: self.ordered, pipe: FilterMap(self.pipe, f) } }
        pub fn flat_map<U: IntoIterator, F: Fn(P::Out) -> U + Sync + Send>(self, f: F) -> Par<S, FlatMap<P, F>> { Par { src: self.src, ordered: self.ordered, pipe: FlatMap(self.pipe, f) } }
        pub fn flat_map_iter<U: IntoIterator, F: Fn(P::Out) -> U + Sync + Send>(self, f: F) -> Par<S, FlatMap<P, F>> { Par { src: self.src, ordered: self.ordered, pipe: FlatMap(self.pipe, f) } }

        /// run the jobs; `per_job` gets the job's items in index order. Returns (results in index order, completion order)
        fn run_jobs<R>(self, per_job: impl Fn(Vec<S>, &P) -> R) -> (Vec<R>, Vec<usize>) {
            let Par { src, pipe, .. } = self;
            let n = src.len();
            let (cuts, order) = plan(n);
            let k = cuts.len();
            if k == 0 { return (Vec::new(), Vec::new()); }
            // carve the source into per-job vectors
            let mut parts: Vec<Option<Vec<S>>> = Vec::with_capacity(k);
            let mut rest = src;
            for idx in (0..k).rev() { let tail = rest.split_off(cuts[idx]); parts.push(Some(tail)); }
            parts.reverse();
            let mut results: Vec<Option<R>> = (0..k).map(|_| None).collect();
            DEPTH.with(|d| d.set(d.get() + 1));
            for &jb in &order { let items = parts[jb].take().unwrap(); results[jb] = Some(per_job(items, &pipe)); }
            DEPTH.with(|d| d.set(d.get() - 1));
            (results.into_iter().map(|r| r.unwrap()).collect(), order)
        }
        fn gather(self) -> Vec<P::Out> {
            let ordered = self.ordered;
            let (res, order) = self.run_jobs(|items, pipe| { let mut out = Vec::new(); for s in items { pipe.feed(s, &mut |x| out.push(x)); } out });
            if ordered { res.into_iter().flatten().collect() }
            else { let mut slots: Vec<Option<Vec<P::Out>>> = res.into_iter().map(Some).collect(); let mut out = Vec::new(); for jb in order { out.extend(slots[jb].take().unwrap()); } out }
        }
        pub fn collect<C: FromIterator<P::Out>>(self) -> C { self.gather().into_iter().collect() }
        pub fn for_each<F: Fn(P::Out) + Sync + Send>(self, f: F) { let _ = self.run_jobs(|items, pipe| { for s in items { pipe.feed(s, &mut |x| f(x)); } }); }
        pub fn count(self) -> usize { self.run_jobs(|items, pipe| { let mut c = 0usize; for s in items { pipe.feed(s, &mut |_| c += 1); } c }).0.into_iter().sum() }
        pub fn fold<T, ID: Fn() -> T + Sync + Send, F: Fn(T, P::Out) -> T + Sync + Send>(self, identity: ID, f: F) -> Par<T, Id> {
            STATS.with(|s| s.borrow_mut().folds += 1);
            let (res, _) = self.run_jobs(|items, pipe| {
                let mut acc = Some(identity());
                for s in items { pipe.feed(s, &mut |x| { let a = acc.take().unwrap(); acc = Some(f(a, x)); }); }
                acc.unwrap()
            });
            Par { src: res, ordered: true, pipe: Id }
        }
        pub fn reduce<ID: Fn() -> P::Out + Sync + Send, F: Fn(P::Out, P::Out) -> P::Out + Sync + Send>(self, identity: ID, op: F) -> P::Out {
            STATS.with(|s| s.borrow_mut().reduces += 1);
            let (mut parts, _) = self.run_jobs(|items, pipe| {
                let mut acc = Some(identity());
                for s in items { pipe.feed(s, &mut |x| { let a = acc.take().unwrap(); acc = Some(op(a, x)); }); }
                acc.unwrap()
            });
            if parts.is_empty() { return identity(); }
            // combine adjacent partial results in a PRNG-chosen association (op must be associative; order is kept)
            while parts.len() > 1 { let i = draw(parts.len() - 1); let b = parts.remove(i + 1); let a = parts.remove(i); parts.insert(i, op(a, b)); }
            parts.pop().unwrap()
        }
        pub fn sum<T: std::iter::Sum<P::Out>>(self) -> T { self.gather().into_iter().sum() }
        // ---- adaptors implemented by materialising the pipeline so far (eager evaluation is one of the executions rayon allows)
        fn regather(self) -> Par<P::Out, Id> { let ordered = self.ordered; Par { src: self.gather(), ordered, pipe: Id } }
        pub fn enumerate(self) -> Par<(usize, P::Out), Id> { let p = self.regather(); Par { src: p.src.into_iter().enumerate().collect(), ordered: p.ordered, pipe: Id } }
        pub fn zip<Z: IntoParallelIterator>(self, other: Z) -> Par<(P::Out, Z::Item), Id> { let a = self.regather(); let b = other.into_par_iter().regather(); Par { src: a.src.into_iter().zip(b.src).collect(), ordered: true, pipe: Id } }
        pub fn chain<Z: IntoParallelIterator<Item = P::Out>>(self, other: Z) -> Par<P::Out, Id> { let mut a = self.regather(); let b = other.into_par_iter().regather(); a.src.extend(b.src); a }
        pub fn take(self, n: usize) -> Par<P::Out, Id> { let mut a = self.regather(); a.src.truncate(n); a }
        pub fn skip(self, n: usize) -> Par<P::Out, Id> { let a = self.regather(); Par { src: a.src.into_iter().skip(n).collect(), ordered: a.ordered, pipe: Id } }
        pub fn rev(self) -> Par<P::Out, Id> { let mut a = self.regather(); a.src.reverse(); a }
        pub fn inspect<F: Fn(&P::Out) + Sync + Send>(self, f: F) -> Par<S, Map<P, impl Fn(P::Out) -> P::Out>> { self.map(move |x| { f(&x); x }) }
        pub fn with_min_len(self, _n: usize) -> Self { self }
        pub fn with_max_len(self, _n: usize) -> Self { self }
        pub fn min(self) -> Option<P::Out> where P::Out: Ord { self.gather().into_iter().min() }
        pub fn max(self) -> Option<P::Out> where P::Out: Ord { self.gather().into_iter().max() }
        pub fn min_by_key<K: Ord, F: Fn(&P::Out) -> K + Sync + Send>(self, f: F) -> Option<P::Out> { self.gather().into_iter().min_by_key(|x| f(x)) }
        pub fn max_by_key<K: Ord, F: Fn(&P::Out) -> K + Sync + Send>(self, f: F) -> Option<P::Out> { self.gather().into_iter().max_by_key(|x| f(x)) }
        pub fn min_by<F: Fn(&P::Out, &P::Out) -> std::cmp::Ordering + Sync + Send>(self, f: F) -> Option<P::Out> { self.gather().into_iter().min_by(|a, b| f(a, b)) }
        pub fn max_by<F: Fn(&P::Out, &P::Out) -> std::cmp::Ordering + Sync + Send>(self, f: F) -> Option<P::Out> { self.gather().into_iter().max_by(|a, b| f(a, b)) }
        /// find_any may return ANY match: the first match of the first-completed job that has one
        pub fn find_any<F: Fn(&P::Out) -> bool + Sync + Send>(self, f: F) -> Option<P::Out> { let (res, order) = self.run_jobs(|items, pipe| { let mut hit = None; for s in items { pipe.feed(s, &mut |x| if hit.is_none() && f(&x) { hit = Some(x) }); } hit }); let mut slots: Vec<Option<Option<P::Out>>> = res.into_iter().map(Some).collect(); for jb in order { if let Some(Some(x)) = slots[jb].take() { return Some(x); } } None }
        pub fn find_first<F: Fn(&P::Out) -> bool + Sync + Send>(self, f: F) -> Option<P::Out> { self.gather().into_iter().find(|x| f(x)) }
        pub fn position_any<F: Fn(P::Out) -> bool + Sync + Send>(self, f: F) -> Option<usize> { self.gather().into_iter().position(f) }
        pub fn try_for_each<E, F: Fn(P::Out) -> Result<(), E> + Sync + Send>(self, f: F) -> Result<(), E> { for x in self.gather() { f(x)?; } Ok(()) }
        pub fn unzip<A, B, CA: Default + Extend<A>, CB: Default + Extend<B>>(self) -> (CA, CB) where P: Pipe<S, Out = (A, B)> { let mut a = CA::default(); let mut b = CB::default(); for (x, y) in self.gather() { a.extend(Some(x)); b.extend(Some(y)); } (a, b) }
        pub fn partition<CA: Default + Extend<P::Out>, CB: Default + Extend<P::Out>, F: Fn(&P::Out) -> bool + Sync + Send>(self, f: F) -> (CA, CB) { let mut a = CA::default(); let mut b = CB::default(); for x in self.gather() { if f(&x) { a.extend(Some(x)) } else { b.extend(Some(x)) } } (a, b) }
        pub fn collect_into_vec(self, target: &mut Vec<P::Out>) { target.clear(); target.extend(self.gather()); }
        pub fn any<F: Fn(P::Out) -> bool + Sync + Send>(self, f: F) -> bool { self.gather().into_iter().any(f) }
        pub fn all<F: Fn(P::Out) -> bool + Sync + Send>(self, f: F) -> bool { self.gather().into_iter().all(f) }
    }

    pub trait IntoParallelIterator { type Item; fn into_par_iter(self) -> Par<Self::Item, Id>; }
    impl<T> IntoParallelIterator for Vec<T> { type Item = T; fn into_par_iter(self) -> Par<T, Id> { Par { src: self, ordered: true, pipe: Id } } }
    impl<T, H> IntoParallelIterator for std::collections::HashSet<T, H> { type Item = T; fn into_par_iter(self) -> Par<T, Id> { Par { src: self.into_iter().collect(), ordered: false, pipe: Id } } }
    impl<T> IntoParallelIterator for std::collections::BTreeSet<T> { type Item = T; fn into_par_iter(self) -> Par<T, Id> { Par { src: self.into_iter().collect(), ordered: true, pipe: Id } } }
    impl IntoParallelIterator for std::ops::Range<usize> { type Item = usize; fn into_par_iter(self) -> Par<usize, Id> { Par { src: self.collect(), ordered: true, pipe: Id } } }
    impl<'a, T> IntoParallelIterator for &'a Vec<T> { type Item = &'a T; fn into_par_iter(self) -> Par<&'a T, Id> { Par { src: self.iter().collect(), ordered: true, pipe: Id } } }
    impl<'a, T> IntoParallelIterator for &'a [T] { type Item = &'a T; fn into_par_iter(self) -> Par<&'a T, Id> { Par { src: self.iter().collect(), ordered: true, pipe: Id } } }

    pub trait IntoParallelRefIterator<'a> { type Item: 'a; fn par_iter(&'a self) -> Par<Self::Item, Id>; }
    impl<'a, T: 'a> IntoParallelRefIterator<'a> for Vec<T> { type Item = &'a T; fn par_iter(&'a self) -> Par<&'a T, Id> { Par { src: self.iter().collect(), ordered: true, pipe: Id } } }
    impl<'a, T: 'a> IntoParallelRefIterator<'a> for [T] { type Item = &'a T; fn par_iter(&'a self) -> Par<&'a T, Id> { Par { src: self.iter().collect(), ordered: true, pipe: Id } } }
    impl<'a, T: 'a, H: 'a> IntoParallelRefIterator<'a> for std::collections::HashSet<T, H> { type Item = &'a T; fn par_iter(&'a self) -> Par<&'a T, Id> { Par { src: self.iter().collect(), ordered: false, pipe: Id } } }
    impl<'a, T: 'a> IntoParallelRefIterator<'a> for std::collections::BTreeSet<T> { type Item = &'a T; fn par_iter(&'a self) -> Par<&'a T, Id> { Par { src: self.iter().collect(), ordered: true, pipe: Id } } }
    impl<'a, K: 'a, V: 'a, H: 'a> IntoParallelRefIterator<'a> for std::collections::HashMap<K, V, H> { type Item = (&'a K, &'a V); fn par_iter(&'a self) -> Par<(&'a K, &'a V), Id> { Par { src: self.iter().collect(), ordered: false, pipe: Id } } }

    pub trait ParallelSlice<T> { fn par_chunks(&self, n: usize) -> Par<&[T], Id>; fn par_chunks_exact(&self, n: usize) -> Par<&[T], Id>; fn par_windows(&self, n: usize) -> Par<&[T], Id>; }
    impl<T> ParallelSlice<T> for [T] {
        fn par_chunks(&self, n: usize) -> Par<&[T], Id> { Par { src: self.chunks(n).collect(), ordered: true, pipe: Id } }
        fn par_chunks_exact(&self, n: usize) -> Par<&[T], Id> { Par { src: self.chunks_exact(n).collect(), ordered: true, pipe: Id } }
        fn par_windows(&self, n: usize) -> Par<&[T], Id> { Par { src: self.windows(n).collect(), ordered: true, pipe: Id } }
    }
    pub trait ParallelSliceMut<T> {
        fn par_sort(&mut self) where T: Ord; fn par_sort_unstable(&mut self) where T: Ord;
        fn par_sort_by<F: Fn(&T, &T) -> std::cmp::Ordering + Sync>(&mut self, f: F); fn par_sort_unstable_by<F: Fn(&T, &T) -> std::cmp::Ordering + Sync>(&mut self, f: F);
        fn par_sort_by_key<K: Ord, F: Fn(&T) -> K + Sync>(&mut self, f: F); fn par_sort_unstable_by_key<K: Ord, F: Fn(&T) -> K + Sync>(&mut self, f: F);
        fn par_chunks_mut(&mut self, n: usize) -> Par<&mut [T], Id>; fn par_iter_mut(&mut self) -> Par<&mut T, Id>;
    }
    impl<T> ParallelSliceMut<T> for [T] {
        fn par_sort(&mut self) where T: Ord { self.sort() } fn par_sort_unstable(&mut self) where T: Ord { self.sort_unstable() }
        fn par_sort_by<F: Fn(&T, &T) -> std::cmp::Ordering + Sync>(&mut self, f: F) { self.sort_by(|a, b| f(a, b)) } fn par_sort_unstable_by<F: Fn(&T, &T) -> std::cmp::Ordering + Sync>(&mut self, f: F) { self.sort_unstable_by(|a, b| f(a, b)) }
        fn par_sort_by_key<K: Ord, F: Fn(&T) -> K + Sync>(&mut self, f: F) { self.sort_by_key(|a| f(a)) } fn par_sort_unstable_by_key<K: Ord, F: Fn(&T) -> K + Sync>(&mut self, f: F) { self.sort_unstable_by_key(|a| f(a)) }
        fn par_chunks_mut(&mut self, n: usize) -> Par<&mut [T], Id> { Par { src: self.chunks_mut(n).collect(), ordered: true, pipe: Id } }
        fn par_iter_mut(&mut self) -> Par<&mut T, Id> { Par { src: self.iter_mut().collect(), ordered: true, pipe: Id } }
    }
    pub trait ParallelBridge: Iterator + Sized { fn par_bridge(self) -> Par<Self::Item, Id> { Par { src: self.collect(), ordered: false, pipe: Id } } }
    impl<I: Iterator + Sized> ParallelBridge for I {}
    pub trait ParallelExtend<T> { fn par_extend<I: IntoParallelIterator<Item = T>>(&mut self, it: I); }
    impl<T> ParallelExtend<T> for Vec<T> { fn par_extend<I: IntoParallelIterator<Item = T>>(&mut self, it: I) { self.extend(it.into_par_iter().collect::<Vec<T>>()) } }
    impl<T: Eq + std::hash::Hash, H: std::hash::BuildHasher> ParallelExtend<T> for std::collections::HashSet<T, H> { fn par_extend<I: IntoParallelIterator<Item = T>>(&mut self, it: I) { self.extend(it.into_par_iter().collect::<Vec<T>>()) } }
    impl<T: Ord> ParallelExtend<T> for std::collections::BTreeSet<T> { fn par_extend<I: IntoParallelIterator<Item = T>>(&mut self, it: I) { self.extend(it.into_par_iter().collect::<Vec<T>>()) } }
    impl<K: Eq + std::hash::Hash, V, H: std::hash::BuildHasher> ParallelExtend<(K, V)> for std::collections::HashMap<K, V, H> { fn par_extend<I: IntoParallelIterator<Item = (K, V)>>(&mut self, it: I) { self.extend(it.into_par_iter().collect::<Vec<(K, V)>>()) } }
    impl<S, P: Pipe<S>> IntoParallelIterator for Par<S, P> { type Item = P::Out; fn into_par_iter(self) -> Par<P::Out, Id> { let ordered = self.ordered; Par { src: self.gather(), ordered, pipe: Id } } }
    impl<K, V, H> IntoParallelIterator for std::collections::HashMap<K, V, H> { type Item = (K, V); fn into_par_iter(self) -> Par<(K, V), Id> { Par { src: self.into_iter().collect(), ordered: false, pipe: Id } } }
    impl<'a, T> IntoParallelIterator for &'a mut Vec<T> { type Item = &'a mut T; fn into_par_iter(self) -> Par<&'a mut T, Id> { Par { src: self.iter_mut().collect(), ordered: true, pipe: Id } } }
}
pub mod prelude { pub use crate::iter::{IntoParallelIterator, IntoParallelRefIterator, ParallelBridge, ParallelExtend, ParallelSlice, ParallelSliceMut}; }
pub mod slice { pub use crate::iter::{ParallelSlice, ParallelSliceMut}; }

/// `rayon::join`: both closures run on the calling thread, in PRNG-chosen order
pub fn join<A, B, RA, RB>(a: A, b: B) -> (RA, RB) where A: FnOnce() -> RA + Send, B: FnOnce() -> RB + Send, RA: Send, RB: Send {
    if ACTIVE.with(|x| x.get()) && draw(2) == 1 { let rb = b(); let ra = a(); (ra, rb) } else { let ra = a(); let rb = b(); (ra, rb) }
}
/// `rayon::scope`: spawned tasks run when spawned (one of the schedules rayon allows)
pub struct Scope<'scope> { _m: std::marker::PhantomData<&'scope ()> }
impl<'scope> Scope<'scope> { pub fn spawn<F: FnOnce(&Scope<'scope>) + Send + 'scope>(&self, f: F) { f(self) } }
pub fn scope<'scope, F, R>(f: F) -> R where F: FnOnce(&Scope<'scope>) -> R + Send, R: Send { f(&Scope { _m: std::marker::PhantomData }) }
pub fn spawn<F: FnOnce() + Send + 'static>(f: F) { f() }
pub fn current_thread_index() -> Option<usize> { Some(0) }

#[derive(Debug)] pub struct ThreadPoolBuildError;
impl std::fmt::Display for ThreadPoolBuildError { fn fmt(&self, f: &mut std::fmt::Formatter<'_>) -> std::fmt::Result { write!(f, "thread pool build error") } }
impl std::error::Error for ThreadPoolBuildError {}
#[derive(Default)] pub struct ThreadPoolBuilder { n: usize }
pub struct ThreadPool { n: usize }
impl ThreadPoolBuilder {
    pub fn new() -> Self { ThreadPoolBuilder { n: 0 } }
    pub fn num_threads(mut self, n: usize) -> Self { self.n = n; self }
    pub fn thread_name<F: FnMut(usize) -> String + 'static>(self, _f: F) -> Self { self }
    pub fn stack_size(self, _n: usize) -> Self { self }
    pub fn build(self) -> Result<ThreadPool, ThreadPoolBuildError> { Ok(ThreadPool { n: if self.n == 0 { current_num_threads() } else { self.n } }) }
    pub fn build_global(self) -> Result<(), ThreadPoolBuildError> { if self.n > 0 && !ACTIVE.with(|a| a.get()) { THREADS.with(|t| t.set(self.n)); } Ok(()) }
}
impl ThreadPool {
    pub fn install<R: Send, F: FnOnce() -> R + Send>(&self, f: F) -> R { let old = THREADS.with(|t| t.replace(self.n.max(1))); let r = f(); THREADS.with(|t| t.set(old)); r }
    pub fn current_num_threads(&self) -> usize { self.n }
    pub fn join<A, B, RA, RB>(&self, a: A, b: B) -> (RA, RB) where A: FnOnce() -> RA + Send, B: FnOnce() -> RB + Send, RA: Send, RB: Send { join(a, b) }
}
