//! sim-crossbeam (lib name `crossbeam`): the subset Kolibrie uses — `channel::{unbounded, Sender, Receiver,
//! RecvTimeoutError, ..}` and `scope`. Inside a simulation the channel is a shuttle Mutex+Condvar MPMC queue whose
//! `recv_timeout` reads the simulated clock; outside it is the real crossbeam channel. `scope` spawns through the
//! std-or-shuttle thread wrapper.
pub mod channel {
    use kolibrie_verif_rt::{clock, in_sim};
    use std::collections::VecDeque;
    use std::sync::Arc;
    use std::time::Duration;
    #[derive(Debug, PartialEq, Eq, Clone, Copy)] pub struct SendError<T>(pub T);
    #[derive(Debug, PartialEq, Eq, Clone, Copy)] pub struct RecvError;
    #[derive(Debug, PartialEq, Eq, Clone, Copy)] pub enum TryRecvError { Empty, Disconnected }
    #[derive(Debug, PartialEq, Eq, Clone, Copy)] pub enum RecvTimeoutError { Timeout, Disconnected }
    impl std::fmt::Display for RecvError { fn fmt(&self, f: &mut std::fmt::Formatter<'_>) -> std::fmt::Result { write!(f, "receiving on an empty and disconnected channel") } }
    impl std::fmt::Display for RecvTimeoutError { fn fmt(&self, f: &mut std::fmt::Formatter<'_>) -> std::fmt::Result { write!(f, "{:?}", self) } }
    impl<T> std::fmt::Display for SendError<T> { fn fmt(&self, f: &mut std::fmt::Formatter<'_>) -> std::fmt::Result { write!(f, "sending on a disconnected channel") } }
    pub struct St<T> { q: VecDeque<T>, senders: usize, receivers: usize }
    pub struct Inner<T> { st: shuttle::sync::Mutex<St<T>>, cv: shuttle::sync::Condvar }
    pub enum Sender<T> { Real(real_crossbeam::channel::Sender<T>), Sim(Arc<Inner<T>>) }
    pub enum Receiver<T> { Real(real_crossbeam::channel::Receiver<T>), Sim(Arc<Inner<T>>) }
    pub fn unbounded<T: 'static>() -> (Sender<T>, Receiver<T>) {
        if in_sim() {
            let i = Arc::new(Inner { st: shuttle::sync::Mutex::new(St { q: VecDeque::new(), senders: 1, receivers: 1 }), cv: shuttle::sync::Condvar::new() });
            if clock::installed() { let j = i.clone(); clock::on_advance(Box::new(move || j.cv.notify_all())); }
            (Sender::Sim(i.clone()), Receiver::Sim(i))
        } else { let (s, r) = real_crossbeam::channel::unbounded(); (Sender::Real(s), Receiver::Real(r)) }
    }
    impl<T> Clone for Sender<T> { fn clone(&self) -> Self { match self { Sender::Real(s) => Sender::Real(s.clone()), Sender::Sim(i) => { i.st.lock().unwrap().senders += 1; Sender::Sim(i.clone()) } } } }
    impl<T> Drop for Sender<T> { fn drop(&mut self) { if let Sender::Sim(i) = self { let z = { let mut g = i.st.lock().unwrap(); g.senders -= 1; g.senders == 0 }; if z { i.cv.notify_all(); } } } }
    impl<T> Clone for Receiver<T> { fn clone(&self) -> Self { match self { Receiver::Real(r) => Receiver::Real(r.clone()), Receiver::Sim(i) => { i.st.lock().unwrap().receivers += 1; Receiver::Sim(i.clone()) } } } }
    impl<T> Drop for Receiver<T> { fn drop(&mut self) { if let Receiver::Sim(i) = self { i.st.lock().unwrap().receivers -= 1; } } }
    impl<T> Sender<T> {
        pub fn send(&self, t: T) -> Result<(), SendError<T>> {
            match self {
                Sender::Real(s) => s.send(t).map_err(|e| SendError(e.0)),
                Sender::Sim(i) => { let mut g = i.st.lock().unwrap(); if g.receivers == 0 { return Err(SendError(t)); } g.q.push_back(t); drop(g); i.cv.notify_all(); Ok(()) }
            }
        }
    }
    impl<T> Receiver<T> {
        pub fn recv(&self) -> Result<T, RecvError> {
            match self {
                Receiver::Real(r) => r.recv().map_err(|_| RecvError),
                Receiver::Sim(i) => { let mut g = i.st.lock().unwrap(); loop { if let Some(x) = g.q.pop_front() { return Ok(x); } if g.senders == 0 { return Err(RecvError); } g = i.cv.wait(g).unwrap(); } }
            }
        }
        pub fn try_recv(&self) -> Result<T, TryRecvError> {
            match self {
                Receiver::Real(r) => r.try_recv().map_err(|e| match e { real_crossbeam::channel::TryRecvError::Empty => TryRecvError::Empty, _ => TryRecvError::Disconnected }),
                Receiver::Sim(i) => { let mut g = i.st.lock().unwrap(); match g.q.pop_front() { Some(x) => Ok(x), None => if g.senders == 0 { Err(TryRecvError::Disconnected) } else { Err(TryRecvError::Empty) } } }
            }
        }
        /// in a simulation the deadline is on the simulated clock: it can only pass through an explicit `clock::advance`
        pub fn recv_timeout(&self, d: Duration) -> Result<T, RecvTimeoutError> {
            match self {
                Receiver::Real(r) => r.recv_timeout(d).map_err(|e| match e { real_crossbeam::channel::RecvTimeoutError::Timeout => RecvTimeoutError::Timeout, _ => RecvTimeoutError::Disconnected }),
                Receiver::Sim(i) => {
                    let deadline = clock::peek_ns().saturating_add(d.as_nanos().min(u64::MAX as u128) as u64);
                    let mut g = i.st.lock().unwrap();
                    loop {
                        if let Some(x) = g.q.pop_front() { return Ok(x); }
                        if g.senders == 0 { return Err(RecvTimeoutError::Disconnected); }
                        if clock::installed() && clock::peek_ns() >= deadline { clock::note_timeout(); return Err(RecvTimeoutError::Timeout); }
                        g = i.cv.wait(g).unwrap();
                    }
                }
            }
        }
        pub fn is_empty(&self) -> bool { match self { Receiver::Real(r) => r.is_empty(), Receiver::Sim(i) => i.st.lock().unwrap().q.is_empty() } }
        pub fn len(&self) -> usize { match self { Receiver::Real(r) => r.len(), Receiver::Sim(i) => i.st.lock().unwrap().q.len() } }
        pub fn iter(&self) -> impl Iterator<Item = T> + '_ { std::iter::from_fn(move || self.recv().ok()) }
        pub fn try_iter(&self) -> impl Iterator<Item = T> + '_ { std::iter::from_fn(move || self.try_recv().ok()) }
    }
}

pub use thread::scope;
pub mod thread {
    use std::any::Any;
    use std::marker::PhantomData;
    use std::sync::{Arc, Mutex};
    type Handles = Arc<Mutex<Vec<kolibrie_verif_rt::thread::JoinHandle<()>>>>;
    pub struct Scope<'env> { handles: Handles, panics: Arc<Mutex<Vec<Box<dyn Any + Send + 'static>>>>, _m: PhantomData<&'env mut &'env ()> }
    pub struct ScopedJoinHandle<'scope, T> { _m: PhantomData<&'scope T> }
    unsafe impl Sync for Scope<'_> {}
    unsafe impl Send for Scope<'_> {}
    pub fn scope<'env, F, R>(f: F) -> Result<R, Box<dyn Any + Send + 'static>> where F: FnOnce(&Scope<'env>) -> R {
        let sc = Scope { handles: Arc::new(Mutex::new(Vec::new())), panics: Arc::new(Mutex::new(Vec::new())), _m: PhantomData };
        let r = std::panic::catch_unwind(std::panic::AssertUnwindSafe(|| f(&sc)));
        loop {
            let h = sc.handles.lock().unwrap().pop();
            match h { Some(h) => { if let Err(e) = h.join() { sc.panics.lock().unwrap().push(e); } } None => break }
        }
        match r {
            Err(e) => std::panic::resume_unwind(e),
            Ok(v) => { let mut p = sc.panics.lock().unwrap(); if let Some(e) = p.pop() { Err(e) } else { Ok(v) } }
        }
    }
    impl<'env> Scope<'env> {
        pub fn spawn<'scope, F, T>(&'scope self, f: F) -> ScopedJoinHandle<'scope, T> where F: FnOnce(&Scope<'env>) -> T + Send + 'env, T: Send + 'env {
            let child = Scope { handles: self.handles.clone(), panics: self.panics.clone(), _m: PhantomData::<&'env mut &'env ()> };
            let job: Box<dyn FnOnce() + Send + 'env> = Box::new(move || { let _ = f(&child); });
            // SAFETY: every spawned thread is joined before `scope` returns, so borrows of 'env outlive the thread
            let job: Box<dyn FnOnce() + Send + 'static> = unsafe { std::mem::transmute(job) };
            let h = kolibrie_verif_rt::thread::spawn(job);
            self.handles.lock().unwrap().push(h);
            ScopedJoinHandle { _m: PhantomData }
        }
    }
}
