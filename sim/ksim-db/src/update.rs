//! C03 — SPARQL Update applies exactly the standard effect, atomically (DESIGN.md 6.2)
//! C17 — query entry points cannot modify data; string entry points fail cleanly (DESIGN.md 6.13)
use kolibrie::execute_query::{execute_query_rayon_parallel2_volcano, execute_sparql_query, execute_sparql_update};
use kolibrie::sparql_database::SparqlDatabase;
use kolibrie_verif_rt::ev;
use kolibrie_verif_rt::harness::*;
use kolibrie_verif_rt::rng::Rng;
use models::quads::{self as qm, block, Store, G, Q, QP, T};
use serde::{Deserialize, Serialize};
use shared::dataset_index::{GraphId, Quad};
use std::collections::BTreeSet;

#[derive(Serialize, Deserialize, Clone, Debug)]
pub struct Flt { pub var: String, pub neq: bool, pub value: String }
#[derive(Serialize, Deserialize, Clone, Debug)]
pub enum UStep {
    InsertData(Vec<QP>), DeleteData(Vec<QP>),
    InsertWhere { tpl: Vec<QP>, pat: Vec<QP>, #[serde(default)] flt: Option<Flt>, #[serde(default)] alt: Option<Vec<QP>> }, DeleteTplWhere { tpl: Vec<QP>, pat: Vec<QP>, #[serde(default)] flt: Option<Flt>, #[serde(default)] alt: Option<Vec<QP>> }, Modify { del: Vec<QP>, ins: Vec<QP>, pat: Vec<QP>, #[serde(default)] flt: Option<Flt>, #[serde(default)] alt: Option<Vec<QP>> }, DeleteWhere { pat: Vec<QP> },
    Rejected(String), ApiAdd(String, String, String), ApiDeleteDefault(String, String, String), Select, Rebuild, OtherSessionBlank,
}
#[derive(Serialize, Deserialize, Clone, Debug)]
pub struct UpdCase { pub hash_seed: u64, pub pool: usize, pub rayon_seed: u64, pub steps: Vec<UStep>,
    /// non-zero: requests abbreviate IRIs with the prefix label `x:`, which successive requests bind to different namespaces
    #[serde(default)] pub prefix_seed: u64 }
pub struct C03;

pub fn render(st: &UStep) -> Option<String> {
    Some(match st {
        UStep::InsertData(q) => format!("INSERT DATA {{ {} }}", block(q)),
        UStep::DeleteData(q) => format!("DELETE DATA {{ {} }}", block(q)),
        UStep::InsertWhere { tpl, pat, flt, alt } => format!("INSERT {{ {} }} WHERE {{ {}{} }}", block(tpl), where_txt(pat, alt), flt_txt(flt)),
        UStep::DeleteTplWhere { tpl, pat, flt, alt } => format!("DELETE {{ {} }} WHERE {{ {}{} }}", block(tpl), where_txt(pat, alt), flt_txt(flt)),
        UStep::Modify { del, ins, pat, flt, alt } => format!("DELETE {{ {} }} INSERT {{ {} }} WHERE {{ {}{} }}", block(del), block(ins), where_txt(pat, alt), flt_txt(flt)),
        UStep::DeleteWhere { pat } => format!("DELETE WHERE {{ {} }}", block(pat)),
        UStep::Rejected(t) => t.clone(),
        _ => return None,
    })
}
fn where_txt(pat: &[QP], alt: &Option<Vec<QP>>) -> String { match alt { None => block(pat), Some(a) => format!(" {{ {} }} UNION {{ {} }} ", block(pat), block(a)) } }
/// WHERE solutions as a multiset: UNION concatenates the solutions of its branches (the same solution may occur twice)
fn where_sols(m: &Store, pat: &[QP], alt: &Option<Vec<QP>>) -> Vec<qm::Binding> { let mut s = qm::matchq(m, pat); if let Some(a) = alt { s.extend(qm::matchq(m, a)); } s }
fn flt_txt(f: &Option<Flt>) -> String { match f { Some(f) => format!(" FILTER (?{} {} <{}>) ", f.var, if f.neq { "!=" } else { "=" }, f.value), None => String::new() } }
/// group-scoped FILTER over a variable of the pattern: an unbound variable is an error, i.e. the solution is dropped
fn flt_apply(sols: Vec<qm::Binding>, f: &Option<Flt>) -> Vec<qm::Binding> { match f { None => sols, Some(f) => sols.into_iter().filter(|b| match b.get(&f.var) { Some(v) => (*v == f.value) != f.neq, None => false }).collect() } }
const REAL_FRESH: &str = "_:kolibrie-update-";
pub fn dump(db: &SparqlDatabase) -> Result<Store, String> {
    let d = |id: u32| db.decode_any(id).ok_or_else(|| format!("stored id {} does not decode", id));
    let mut st = Store::default();
    for q in db.dataset_index.all_quads() { st.quads.insert((d(q.subject)?, d(q.predicate)?, d(q.object)?, match q.graph { GraphId::Default => None, GraphId::Named(g) => Some(d(g)?) })); }
    for g in db.dataset_index.named_graphs() { if let GraphId::Named(n) = g { st.graphs.insert(d(n)?); } }
    Ok(st)
}
pub fn raw_state(db: &SparqlDatabase) -> (BTreeSet<Quad>, Vec<GraphId>) { (db.dataset_index.all_quads().into_iter().collect(), db.dataset_index.named_graphs()) }

pub struct Vocab { pub nn: u64, pub np: u64, pub ng: u64, pub nl: u64, pub rel: bool, pub star: bool }
impl Vocab {
    /// with `rel`, some nodes and predicates are relative IRIs (`<r1>`, `<q0>`): Kolibrie stores them as bare strings
    pub fn n(&self, r: &mut Rng) -> String { if self.rel && r.chance(1, 3) { format!("r{}", r.below(3)) } else { format!("http://e/n{}", r.below(self.nn)) } }
    pub fn p(&self, r: &mut Rng) -> String { if self.rel && r.chance(1, 4) { format!("q{}", r.below(2)) } else { format!("http://e/p{}", r.below(self.np)) } }
    pub fn g(&self, r: &mut Rng) -> String { format!("http://e/g{}", r.below(self.ng)) }
    pub fn l(&self, r: &mut Rng) -> String { format!("v{}", r.below(self.nl)) }
    pub fn obj(&self, r: &mut Rng) -> T { if r.chance(1, 3) { T::Lit(self.l(r)) } else { T::Iri(self.n(r)) } }
    pub fn gr(&self, r: &mut Rng) -> G { if r.chance(1, 3) { G::Named(self.g(r)) } else { G::Default } }
    pub fn ground(&self, r: &mut Rng, k: usize, bn: bool) -> Vec<QP> { (0..k).map(|_| QP { s: if bn && r.chance(1, 8) { T::Bn("d".into()) } else { T::Iri(self.n(r)) }, p: T::Iri(self.p(r)), o: if bn && r.chance(1, 10) { T::Bn("d".into()) } else { self.obj(r) }, g: self.gr(r) }).collect() }
    pub fn pattern(&self, r: &mut Rng) -> Vec<QP> {
        let vars = ["a", "b", "c"]; let k = 1 + r.usize(2);
        let gsel = match r.below(4) { 0 => G::Named(self.g(r)), 1 => G::Var("g".into()), _ => G::Default };
        (0..k).map(|i| QP { s: if r.chance(1, 4) { T::Iri(self.n(r)) } else { T::Var(vars[i % 3].into()) }, p: if r.chance(1, 6) { T::Var("pp".into()) } else { T::Iri(self.p(r)) }, o: if r.chance(1, 4) { self.obj(r) } else { T::Var(vars[(i + 1) % 3].into()) }, g: if r.chance(1, 6) { self.gr(r) } else { gsel.clone() } }).collect()
    }
    pub fn alt(&self, r: &mut Rng, pat: &[QP]) -> Option<Vec<QP>> { if !r.chance(1, 5) { return None; } if r.chance(1, 2) { Some(pat.to_vec()) } else { Some(self.pattern(r)) } }
    pub fn filter(&self, r: &mut Rng, pat: &[QP]) -> Option<Flt> {
        if !r.chance(1, 4) { return None; }
        let vars: Vec<String> = pat.iter().flat_map(|q| [&q.s, &q.o]).filter_map(|t| if let T::Var(v) = t { Some(v.clone()) } else { None }).collect();
        if vars.is_empty() { return None; }
        Some(Flt { var: r.pick(&vars).clone(), neq: r.chance(2, 3), value: self.n(r) })
    }
    pub fn template(&self, r: &mut Rng, insert: bool) -> Vec<QP> {
        let vars = ["a", "b", "c"]; let k = 1 + r.usize(2);
        (0..k).map(|_| {
            let mut tv = |r: &mut Rng| -> T { match r.below(5) { 0 => T::Iri(self.n(r)), 1 if insert => T::Bn(if r.chance(1, 3) { "y".into() } else { "x".into() }), _ => T::Var(vars[r.usize(3)].into()) } };
            let mut q = QP { s: tv(r), p: if r.chance(1, 5) { T::Var("pp".into()) } else { T::Iri(self.p(r)) }, o: if r.chance(1, 5) { self.obj(r) } else { tv(r) }, g: match r.below(5) { 0 => G::Named(self.g(r)), 1 => G::Var("g".into()), _ => G::Default } };
            // RDF-star: a quoted triple without variables (absolute IRIs, optionally a template blank node, which stays fresh per solution) as subject or object
            if self.star && insert && r.chance(1, 2) {
                let abs = |r: &mut Rng| T::Iri(format!("http://e/n{}", r.below(self.nn)));
                let qt = T::Quoted(Box::new(if r.chance(2, 3) { T::Bn(if r.chance(1, 2) { "x".into() } else { "w".into() }) } else { abs(r) }), Box::new(T::Iri(format!("http://e/p{}", r.below(self.np)))), Box::new(abs(r)));
                if r.chance(1, 2) { q.s = qt; } else { q.o = qt; }
            }
            q
        }).collect()
    }
}
pub const REJECTED: [&str; 12] = [
    "DELETE { _:b <http://e/p0> ?a } WHERE { ?a <http://e/p0> ?b }",
    "INSERT DATA { ?x <http://e/p0> <http://e/n0> }",
    "SELECT * WHERE { ?s ?p ?o }",
    "INSERT DATA { <http://e/n0> <http://e/p0> ",
    "DELETE DATA { <http://e/n0> <http://e/p0> _:b }",
    "INSERT { GRAPH \"lit\" { <http://e/n0> <http://e/p0> <http://e/n1> } } WHERE { }",
    "DELETE WHERE { _:b <http://e/p0> ?a }",
    "INSERT DATA { <http://e/n0> <http://e/p0> <http://e/n1> } garbage",
    "DELETE DATA { GRAPH ?g { <http://e/n0> <http://e/p0> <http://e/n1> } }",
    "INSERT DATA { <http://e/n0> <http://e/p0> <http://e/n1> . } ; SELECT",
    "",
    "DELETE { <http://e/n0> <http://e/p0> ?a } INSERT { <http://e/n0> <http://e/p1> ?a } WHERE { ?a <http://e/p0> ?b ",
];
pub fn gen_steps(r: &mut Rng, cfg: &mut Rng, n: usize) -> Vec<UStep> {
    let v = Vocab { nn: 3 + cfg.below(4), np: 2 + cfg.below(2), ng: 2 + cfg.below(2), nl: 3, rel: cfg.chance(1, 4), star: cfg.chance(1, 5) };
    let w_rej = cfg.below(3) as u32; let w_api = cfg.below(3) as u32;
    let mut steps = vec![];
    for _ in 0..n {
        steps.push(match r.weighted(&[5, 2, 3, 2, 3, 2, w_rej, w_api, w_api, 1, 1, 1]) {
            0 => { let k = 1 + r.usize(4); UStep::InsertData(v.ground(r, k, true)) }
            1 => { let k = 1 + r.usize(2); UStep::DeleteData(v.ground(r, k, false)) }
            2 => { let pat = v.pattern(r); let flt = v.filter(r, &pat); let alt = v.alt(r, &pat); UStep::InsertWhere { tpl: v.template(r, true), pat, flt, alt } }
            3 => { let pat = v.pattern(r); let flt = v.filter(r, &pat); let alt = v.alt(r, &pat); UStep::DeleteTplWhere { tpl: v.template(r, false), pat, flt, alt } }
            4 => { if r.chance(1, 4) { let a = T::Var("a".into()); let b = T::Var("b".into()); let p = T::Iri(v.p(r)); UStep::Modify { del: vec![QP { s: a.clone(), p: p.clone(), o: b.clone(), g: G::Default }], ins: vec![QP { s: b.clone(), p: p.clone(), o: a.clone(), g: G::Default }], pat: vec![QP { s: a, p, o: b, g: G::Default }], flt: None, alt: None } } else { let pat = v.pattern(r); let flt = v.filter(r, &pat); let alt = v.alt(r, &pat); UStep::Modify { del: v.template(r, false), ins: v.template(r, true), pat, flt, alt } } }
            5 => UStep::DeleteWhere { pat: v.pattern(r) },
            6 => UStep::Rejected(r.pick(&REJECTED).to_string()),
            7 => UStep::ApiAdd(v.n(r), v.p(r), v.n(r)),
            8 => UStep::ApiDeleteDefault(v.n(r), v.p(r), v.n(r)),
            9 => UStep::Select, 10 => UStep::Rebuild, _ => UStep::OtherSessionBlank,
        });
    }
    steps
}

thread_local! { pub static PREFIX_SEED: std::cell::Cell<u64> = std::cell::Cell::new(0); }
/// abbreviate either the node IRIs or the predicate IRIs of a request with the label `x:`; which namespace `x:` stands for
/// changes from request to request, and every request declares its own binding
fn with_rebound_prefix(text: String, seed: u64, i: usize) -> String {
    if seed == 0 { return text; }
    let (ns, decl) = match kolibrie_verif_rt::rng::mix(seed, i as u64) % 3 { 1 => ("<http://e/n", "PREFIX x: <http://e/n> "), 2 => ("<http://e/p", "PREFIX x: <http://e/p> "), _ => return text };
    let mut out = String::from(decl); let mut rest = text.as_str();
    while let Some(k) = rest.find(ns) {
        let tail = &rest[k + ns.len()..];
        let digits = tail.chars().take_while(|c| c.is_ascii_digit()).count();
        if digits > 0 && tail[digits..].starts_with('>') { out.push_str(&rest[..k]); out.push_str("x:"); out.push_str(&tail[..digits]); rest = &tail[digits + 1..]; }
        else { out.push_str(&rest[..k + ns.len()]); rest = tail; }
    }
    out.push_str(rest);
    out
}
/// apply one step to the database and the model; Err = violation
pub fn step(db: &mut SparqlDatabase, other: &mut SparqlDatabase, m: &mut Store, bnctr: &mut u64, i: usize, st: &UStep, ctx: &mut Ctx) -> Result<(), Violation> {
    match st {
        UStep::ApiAdd(s, p, o) => { db.add_triple_parts(s, p, o); m.quads.insert((s.clone(), p.clone(), o.clone(), None)); ctx.hit("fault.direct_api_mutation_makes_statistics_stale"); return Ok(()); }
        UStep::ApiDeleteDefault(s, p, o) => { let ids = { let d = db.dictionary.read().unwrap(); (d.string_to_id.get(s).copied(), d.string_to_id.get(p).copied(), d.string_to_id.get(o).copied()) }; if let (Some(a), Some(b), Some(c)) = ids { db.delete_triple(&shared::triple::Triple { subject: a, predicate: b, object: c }); } m.quads.remove(&(s.clone(), p.clone(), o.clone(), None)); return Ok(()); }
        UStep::Select => { let _ = execute_sparql_query("SELECT * WHERE { ?s ?p ?o }", db); if db.cached_stats.is_some() { ctx.hit("probe.statistics_cached_before_later_updates"); } return Ok(()); }
        UStep::Rebuild => { db.build_all_indexes(); return Ok(()); }
        UStep::OtherSessionBlank => { let _ = other.execute_update("INSERT DATA { _:z <http://e/p0> _:z }"); return Ok(()); }
        _ => {}
    }
    let text = render(st).unwrap();
    let text = if matches!(st, UStep::Rejected(_)) { text } else { with_rebound_prefix(text, PREFIX_SEED.with(|c| c.get()), i) };
    let before = m.clone(); let raw_before = raw_state(db);
    let expect: Option<(BTreeSet<Q>, BTreeSet<Q>)> = match st {
        UStep::InsertData(q) => Some((BTreeSet::new(), qm::inst(q, &[qm::Binding::new()], true, bnctr))),
        UStep::DeleteData(q) => Some((qm::inst(q, &[qm::Binding::new()], false, bnctr), BTreeSet::new())),
        UStep::InsertWhere { tpl, pat, flt, alt } => { let sols = flt_apply(where_sols(m, pat, alt), flt); if alt.is_some() { let d: BTreeSet<&qm::Binding> = sols.iter().collect(); if d.len() < sols.len() { ctx.hit("probe.where_returned_the_same_solution_twice"); } } Some((BTreeSet::new(), qm::inst_pre(tpl, &sols, true, bnctr, Some(&*m)))) }
        UStep::DeleteTplWhere { tpl, pat, flt, alt } => { let sols = flt_apply(where_sols(m, pat, alt), flt); Some((qm::inst_pre(tpl, &sols, false, bnctr, Some(&*m)), BTreeSet::new())) }
        UStep::Modify { del, ins, pat, flt, alt } => { let sols = flt_apply(where_sols(m, pat, alt), flt); Some((qm::inst_pre(del, &sols, false, bnctr, Some(&*m)), qm::inst_pre(ins, &sols, true, bnctr, Some(&*m)))) }
        UStep::DeleteWhere { pat } => { let sols = qm::matchq(m, pat); Some((qm::inst_pre(pat, &sols, false, bnctr, Some(&*m)), BTreeSet::new())) }
        _ => None,
    };
    let res = db.execute_update(&text);
    ev!(ctx.log, "{} {} -> {:?}", i, text, res.as_ref().map(|s| (s.inserted_quads, s.deleted_quads)).map_err(|e| e.lines().next().unwrap_or("").to_string()));
    match (expect, res) {
        (None, Ok(s)) => Err(Violation::new("malformed-update-accepted", format!("step {}: the rejected-class operation {:?} was accepted ({} inserted, {} deleted)", i, text, s.inserted_quads, s.deleted_quads))),
        (None, Err(_)) => { ctx.hit("fault.rejected_operation"); if raw_state(db) != raw_before { return Err(Violation::new("rejected-update-changed-dataset", format!("step {}: {:?} was rejected but the dataset or graph catalog changed", i, text))); } Ok(()) }
        (Some(_), Err(e)) => Err(Violation::new("valid-update-rejected", format!("step {}: supported update {:?} was rejected: {}", i, text, e.lines().next().unwrap_or("")))),
        (Some((del, ins)), Ok(sum)) => {
            let (ic, dc) = qm::apply(m, &del, &ins);
            let real = dump(db).map_err(|e| Violation::new("dataset-undecodable", e))?;
            if real.graphs != m.graphs { return Err(Violation::new("graph-catalog-differs", format!("step {}: after {:?} the graph catalog is {:?}, the standard effect gives {:?}", i, text, real.graphs, m.graphs))); }
            // fresh blank nodes inside quoted triples: compare with every fresh label collapsed, plus the number of distinct fresh nodes
            let embedded = |qs: &BTreeSet<Q>, pre: &str| qs.iter().any(|q| [&q.0, &q.2].iter().any(|t| t.starts_with("<< ") && t.contains(pre)));
            if embedded(&m.quads, "_:B") || embedded(&real.quads, REAL_FRESH) {
                let collapse = |t: &str, pre: &str, seen: &mut BTreeSet<String>| -> String { t.split(' ').map(|w| if w.starts_with(pre) { seen.insert(w.to_string()); "_:*".to_string() } else { w.to_string() }).collect::<Vec<_>>().join(" ") };
                let norm = |qs: &BTreeSet<Q>, pre: &str| -> (BTreeSet<Q>, usize) { let mut seen = BTreeSet::new(); let out = qs.iter().map(|q| (collapse(&q.0, pre, &mut seen), q.1.clone(), collapse(&q.2, pre, &mut seen), q.3.clone())).collect(); (out, seen.len()) };
                let ((a, na), (b, nb)) = (norm(&m.quads, "_:B"), norm(&real.quads, REAL_FRESH));
                ctx.hit("probe.fresh_blank_node_inside_quoted_triple");
                if a != b { return Err(Violation::new("dataset-differs", format!("step {}: after {:?} the dataset differs from the standard effect even with all fresh blank nodes identified; expected-but-missing {:?}; present-but-unexpected {:?}", i, text, a.difference(&b).take(3).collect::<Vec<_>>(), b.difference(&a).take(3).collect::<Vec<_>>()))); }
                if na != nb { return Err(Violation::new("blank-node-structure-differs", format!("step {}: after {:?} the dataset holds {} distinct fresh blank nodes, the standard effect (one fresh node per label and solution) gives {}", i, text, nb, na))); }
                if (sum.inserted_quads, sum.deleted_quads) != (ic, dc) { return Err(Violation::new("counts-differ", format!("step {}: {:?} reported inserted={} deleted={}, but {} quads were actually added and {} removed", i, text, sum.inserted_quads, sum.deleted_quads, ic, dc))); }
                return Ok(());
            }
            let iso = qm::iso_modulo_fresh_bnodes(&m.quads, &real.quads, &|s| s.starts_with("_:B"), &|s| s.starts_with(REAL_FRESH));
            match iso {
                Some(true) => {}
                None => {
                    // search budget exhausted (many interchangeable fresh nodes linked to each other): fall back to the comparison with
                    // all fresh labels collapsed, which can only miss a wrong blank-node structure, never alarm wrongly
                    ctx.hit("probe.blank_node_isomorphism_budget_exhausted");
                    let strip = |s: &BTreeSet<Q>, pre: &str| -> BTreeSet<Q> { s.iter().map(|q| (if q.0.starts_with(pre) { "_:*".into() } else { q.0.clone() }, q.1.clone(), if q.2.starts_with(pre) { "_:*".into() } else { q.2.clone() }, q.3.clone())).collect() };
                    let (a, b) = (strip(&m.quads, "_:B"), strip(&real.quads, REAL_FRESH));
                    if a != b { return Err(Violation::new("dataset-differs", format!("step {}: after {:?} the dataset differs from the standard effect even with all fresh blank nodes identified; expected-but-missing {:?}; present-but-unexpected {:?}", i, text, a.difference(&b).take(3).collect::<Vec<_>>(), b.difference(&a).take(3).collect::<Vec<_>>()))); }
                }
                Some(false) => {
                    let strip = |s: &BTreeSet<Q>, pre: &str| -> BTreeSet<Q> { s.iter().map(|q| (if q.0.starts_with(pre) { "_:*".into() } else { q.0.clone() }, q.1.clone(), if q.2.starts_with(pre) { "_:*".into() } else { q.2.clone() }, q.3.clone())).collect() };
                    let (a, b) = (strip(&m.quads, "_:B"), strip(&real.quads, REAL_FRESH));
                    let class = if a == b { "blank-node-structure-differs" } else { "dataset-differs" };
                    return Err(Violation::new(class, format!("step {}: after {:?} the dataset ({} quads) is not the standard effect ({} quads); expected-but-missing {:?}; present-but-unexpected {:?}; pre-state had {} quads", i, text, real.quads.len(), m.quads.len(), a.difference(&b).take(3).collect::<Vec<_>>(), b.difference(&a).take(3).collect::<Vec<_>>(), before.quads.len())));
                }
            }
            if (sum.inserted_quads, sum.deleted_quads) != (ic, dc) { return Err(Violation::new("counts-differ", format!("step {}: {:?} reported inserted={} deleted={}, but {} quads were actually added and {} removed", i, text, sum.inserted_quads, sum.deleted_quads, ic, dc))); }
            if !del.is_empty() && !ins.is_empty() && del.intersection(&ins).next().is_some() { ctx.hit("probe.same_quad_deleted_and_inserted"); }
            if ins.iter().any(|q| q.0.starts_with("_:B") || q.2.starts_with("_:B")) { ctx.hit("probe.fresh_blank_nodes_created"); }
            Ok(())
        }
    }
}

impl Prop for C03 {
    type Case = UpdCase;
    fn id(&self) -> &'static str { "C03" }
    fn expected_counters(&self) -> Vec<&'static str> { vec!["fault.direct_api_mutation_makes_statistics_stale", "probe.statistics_cached_before_later_updates", "fault.rejected_operation", "probe.same_quad_deleted_and_inserted", "probe.fresh_blank_nodes_created", "probe.prefix_label_rebound_between_requests", "probe.fresh_blank_node_inside_quoted_triple"] }
    fn budget(&self, tier: Tier) -> Budget { match tier { Tier::Quick => Budget { runs: 10_000, wall_s: 60, recheck: 30 }, Tier::Thorough => Budget { runs: 800_000, wall_s: 1000, recheck: 100 } } }
    fn hash_seed(&self, c: &UpdCase) -> u64 { c.hash_seed }
    fn gen(&self, seed: u64, _i: u64, _t: Tier) -> UpdCase {
        let mut r = Rng::sub(seed, "workload"); let mut cfg = Rng::sub(seed, "swarm");
        let n = 5 + r.usize(36);
        UpdCase { hash_seed: Rng::sub(seed, "hash").next(), pool: *cfg.pick(&[1, 2, 4, 8, 16]), rayon_seed: Rng::sub(seed, "rayon").next(), steps: gen_steps(&mut r, &mut cfg, n), prefix_seed: if cfg.chance(1, 4) { Rng::sub(seed, "prefix").next() | 1 } else { 0 } }
    }
    fn exec(&self, c: &UpdCase, ctx: &mut Ctx) -> Option<Violation> {
        PREFIX_SEED.with(|p| p.set(c.prefix_seed));
        if c.prefix_seed != 0 { ctx.hit("probe.prefix_label_rebound_between_requests"); }
        rayon::sim_configure(c.rayon_seed, c.pool);
        let mut db = SparqlDatabase::new(); let mut other = SparqlDatabase::new();
        let mut m = Store::default(); let mut bnctr = 0u64;
        for (i, st) in c.steps.iter().enumerate() {
            if let Err(v) = step(&mut db, &mut other, &mut m, &mut bnctr, i, st, ctx) { rayon::sim_reset(); return Some(v); }
            ctx.state(kolibrie_verif_rt::log::fnv(&format!("{:?}{:?}", m.quads.len(), m.graphs)));
        }
        rayon::sim_reset();
        ctx.count("update_steps", c.steps.len() as u64);
        if c.steps.len() >= 5 && !m.quads.is_empty() { ctx.nontrivial(kolibrie_verif_rt::log::fnv(&format!("{:?}", c.steps))); }
        if c.steps.iter().any(|s| matches!(s, UStep::Rejected(_))) { ctx.hit("class.faulted"); } else { ctx.hit("class.fault_free"); }
        None
    }
    fn shrink(&self, c: &UpdCase) -> Vec<UpdCase> {
        let mut out: Vec<UpdCase> = shrink_vec(&c.steps).into_iter().map(|s| UpdCase { steps: s, ..c.clone() }).collect();
        if c.prefix_seed != 0 { out.push(UpdCase { prefix_seed: 0, ..c.clone() }); }
        for (i, st) in c.steps.iter().enumerate() {
            let mut push = |ns: UStep| { let mut s = c.steps.clone(); s[i] = ns; out.push(UpdCase { steps: s, ..c.clone() }); };
            match st {
                UStep::InsertData(q) if q.len() > 1 => for x in shrink_vec(q) { if !x.is_empty() { push(UStep::InsertData(x)); } },
                UStep::InsertWhere { tpl, pat, flt, alt } => { for x in shrink_vec(tpl) { if !x.is_empty() { push(UStep::InsertWhere { tpl: x, pat: pat.clone(), flt: flt.clone(), alt: alt.clone() }); } } for x in shrink_vec(pat) { if !x.is_empty() { push(UStep::InsertWhere { tpl: tpl.clone(), pat: x, flt: None, alt: alt.clone() }); } } if flt.is_some() { push(UStep::InsertWhere { tpl: tpl.clone(), pat: pat.clone(), flt: None, alt: alt.clone() }); } if alt.is_some() { push(UStep::InsertWhere { tpl: tpl.clone(), pat: pat.clone(), flt: flt.clone(), alt: None }); } }
                UStep::DeleteTplWhere { tpl, pat, flt, alt } => { for x in shrink_vec(tpl) { if !x.is_empty() { push(UStep::DeleteTplWhere { tpl: x, pat: pat.clone(), flt: flt.clone(), alt: alt.clone() }); } } for x in shrink_vec(pat) { if !x.is_empty() { push(UStep::DeleteTplWhere { tpl: tpl.clone(), pat: x, flt: None, alt: alt.clone() }); } } if flt.is_some() { push(UStep::DeleteTplWhere { tpl: tpl.clone(), pat: pat.clone(), flt: None, alt: alt.clone() }); } if alt.is_some() { push(UStep::DeleteTplWhere { tpl: tpl.clone(), pat: pat.clone(), flt: flt.clone(), alt: None }); } }
                UStep::Modify { del, ins, pat, flt, alt } => { for x in shrink_vec(del) { push(UStep::Modify { del: x, ins: ins.clone(), pat: pat.clone(), flt: flt.clone(), alt: alt.clone() }); } for x in shrink_vec(ins) { push(UStep::Modify { del: del.clone(), ins: x, pat: pat.clone(), flt: flt.clone(), alt: alt.clone() }); } for x in shrink_vec(pat) { if !x.is_empty() { push(UStep::Modify { del: del.clone(), ins: ins.clone(), pat: x, flt: None, alt: alt.clone() }); } } if flt.is_some() { push(UStep::Modify { del: del.clone(), ins: ins.clone(), pat: pat.clone(), flt: None, alt: alt.clone() }); } if alt.is_some() { push(UStep::Modify { del: del.clone(), ins: ins.clone(), pat: pat.clone(), flt: flt.clone(), alt: None }); } }
                UStep::DeleteWhere { pat } if pat.len() > 1 => for x in shrink_vec(pat) { if !x.is_empty() { push(UStep::DeleteWhere { pat: x }); } },
                _ => {}
            }
        }
        if c.pool != 1 { out.push(UpdCase { pool: 1, rayon_seed: 0, ..c.clone() }); }
        if c.hash_seed != 0 { out.push(UpdCase { hash_seed: 0, ..c.clone() }); }
        out
    }
    fn rule(&self) -> String { "A case is one history of 5-40 steps on one database (a second session is interleaved so blank-node allocations are non-contiguous): the six update forms over default and named graphs (IRIs, literals, template blank nodes, GRAPH ?g templates, self-referential templates, templates producing illegal triples and unbound variables), rejected/malformed operations, direct API mutations and SELECTs (stale statistics), index rebuilds. After every step the whole dataset and graph catalog are compared with the reference Update model modulo a bijection on fresh blank nodes, the reported counts with the quads actually changed, and a rejected operation must leave ids and catalog unchanged. Non-trivial = at least 5 steps ending non-empty; distinct = hash of the step list. A quarter of the histories use relative IRIs (legality of template-bound terms decided on the pre-operation dataset), a quarter abbreviate IRIs with one prefix label that successive requests bind to different namespaces, a fifth put RDF-star quoted triples with template blank nodes into INSERT templates (compared with fresh labels collapsed plus the number of distinct fresh nodes).".into() }
    fn assumptions(&self) -> Vec<String> { vec!["reference model written from SPARQL 1.1 Update: WHERE once on the pre-state (quad-pattern BGP), all deletes then all inserts, blank nodes fresh per solution, illegal-position and unbound solutions skipped".into(), "generated terms are kind-unambiguous (absolute IRIs, literals v<n>)".into(), "the process-global blank-node counter is not replaced: oracles are label-insensitive".into()] }
    fn real_vs_stub(&self) -> serde_json::Value { serde_json::json!({"real": ["SparqlDatabase::execute_update -> parser, execute_modify, instantiate_templates, apply_mutations, optimizer, execution engine, DatasetIndex"], "simulated": ["rayon (sim-rayon)", "hash keys", "client issuing rejected/malformed operations"], "not_run": ["HTTP transport"]}) }
}

// =====================================================================================================================
// C17
#[derive(Serialize, Deserialize, Clone, Debug)]
pub struct Req { pub entry: u8, pub text: String, pub valid_select: bool, pub update_shaped: bool, #[serde(default)] pub ext: bool,
    /// raw text appended to the percent-encoded form / URL parameter (escapes that decode to no valid UTF-8, stray %, +)
    #[serde(default)] pub form_tail: String,
    /// a request of the known-malformed corpus: every update entry point must report failure
    #[serde(default)] pub malformed: bool }
#[derive(Serialize, Deserialize, Clone, Debug)]
pub struct HostileCase { pub hash_seed: u64, pub setup: Vec<UStep>, pub reqs: Vec<Req>, #[serde(default)] pub prefixes: Vec<(String, String, bool)>,
    /// simulated rayon pool (size 0 = 1) and a bulk of extra default-graph triples so that joins see more rows than one chunk
    #[serde(default)] pub pool: usize, #[serde(default)] pub rayon_seed: u64, #[serde(default)] pub bulk: u32 }
pub struct C17;
pub const ENTRIES: [&str; 10] = ["execute_sparql_query", "execute_query_rayon_parallel2_volcano(SELECT)", "execute_sparql_update", "SparqlDatabase::execute_update", "SparqlDatabase::handle_update", "handle_http_request(GET query=)", "handle_http_request(POST application/sparql-query)", "handle_http_request(POST form query=)", "handle_http_request(POST form update=)", "handle_http_request(POST application/sparql-update)"];

const SELECTS: [&str; 28] = [
    "PREFIX e: <http://e/> PREFIX xsd: <http://www.w3.org/2001/XMLSchema#> SELECT ?s WHERE { ?s e:p0 ?o ; e:p1 ?x , ?y . FILTER (?o != \"v1\"@en) }",
    "SELECT ?s WHERE { ?s <http://e/num> ?n FILTER ((?n + 1) >= (2 * 2)) } ORDER BY ?s",
    "SELECT ?s WHERE { ?s a <http://e/Type> . ?s <http://e/p0> \"12\"^^<http://www.w3.org/2001/XMLSchema#integer> } # trailing comment",
    "select ?s where { ?s <http://e/p0> 'single' . ?s <http://e/p1> \"\"\"long \"quoted\" text\"\"\" }",
    "SELECT ?s ?o WHERE { ?s <http://e/p0> ?o . { SELECT ?s WHERE { ?s <http://e/p1> ?z } LIMIT 2 } }",
    "SELECT ?s WHERE { << ?s <http://e/p0> ?o >> <http://e/certainty> ?c }",
    "SELECT ?s FROM <http://e/g0> WHERE { ?s ?p ?o }",
    "SELECT ?s ?g FROM NAMED <http://e/g5> WHERE { GRAPH ?g { ?s ?p ?o } }",
    "SELECT ?s FROM <http://e/gnone> FROM NAMED <http://e/g1> FROM NAMED <http://e/gabsent> WHERE { { ?s ?p ?o } UNION { GRAPH <http://e/gabsent> { ?s ?p ?o } } }",
    "SELECT ?g WHERE { GRAPH ?g { } }",
    "SELECT * WHERE { ?s ?p ?o }",
    "SELECT ?s WHERE { ?s <http://e/p0> ?o . ?o <http://e/p1> ?x }",
    "SELECT ?s ?o WHERE { GRAPH ?g { ?s <http://e/p0> ?o } }",
    "SELECT DISTINCT ?o WHERE { { ?s <http://e/p0> ?o } UNION { ?s <http://e/p1> ?o } } ORDER BY ?o LIMIT 3",
    "PREFIX e: <http://e/> SELECT ?s WHERE { ?s e:p0 ?o FILTER(?o != \"v1\") }",
    "SELECT ?s (COUNT(?o) AS ?c) WHERE { ?s ?p ?o } GROUP BY ?s",
    "SELECT ?s WHERE { ?s <http://e/p0> \"v1\" . VALUES ?s { <http://e/n0> <http://e/n1> } }",
    "SELECT ?x WHERE { ?s <http://e/p0> ?o BIND(CONCAT(\"a\", \"b\") AS ?x) }",
    "SELECT (MIN(?n) AS ?lo) (MAX(?n) AS ?hi) WHERE { ?s <http://e/num> ?n }",
    "SELECT ?s (MAX(?n) AS ?hi) (SUM(?n) AS ?t) (AVG(?n) AS ?a) WHERE { ?s <http://e/num> ?n } GROUP BY ?s",
    "SELECT (MIN(?v) AS ?lo) WHERE { VALUES ?v { 1 \"NaN\" 2 } }",
    "SELECT (MAX(?v) AS ?hi) WHERE { VALUES ?v { \"-inf\" \"NaN\" \"1e999\" \"-0\" } }",
    "SELECT ?s ?n WHERE { ?s <http://e/num> ?n FILTER (?n > 1) } ORDER BY DESC(?n) LIMIT 4",
    "SELECT ?s WHERE { ?s d:p0 ?o . ?o h:p1 ?x FILTER (?x != d:n1) }",
    "SELECT ?s WHERE { GRAPH h:g0 { ?s ?p h:n0 } }",
    "SELECT ?s ?o WHERE { ?s <http://e/p0> ?o } ORDER BY ?s LIMIT 18446744073709551615",
    "SELECT ?s WHERE { ?s ?p ?o . { SELECT ?s WHERE { ?s <http://e/p1> ?z } LIMIT 9223372036854775808 } } LIMIT 4611686018427387904",
    "SELECT DISTINCT ?s WHERE { ?s ?p ?o } LIMIT 0",
];
const UPDATES: [&str; 14] = [
    "PREFIX e: <http://e/> INSERT DATA { e:n9 e:p0 e:n8 ; e:p1 \"x\" , \"y\" . }",
    "PREFIX e: <http://e/> DELETE { ?s e:p0 ?o } INSERT { GRAPH e:g9 { ?s e:p0 ?o } } WHERE { ?s e:p0 ?o FILTER (?o != e:n1) }",
    "INSERT DATA { <http://e/n9> <http://e/num> 42 . <http://e/n9> <http://e/num> -7 . <http://e/n9> <http://e/num> 3.5 }",
    "INSERT { _:b <http://e/p0> ?o } WHERE { ?s <http://e/p0> ?o }",
    "INSERT DATA { <http://e/n9> <http://e/p0> <http://e/n8> }",
    "DELETE DATA { <http://e/n0> <http://e/p0> <http://e/n1> }",
    "INSERT { ?s <http://e/p1> ?o } WHERE { ?s <http://e/p0> ?o }",
    "DELETE { ?s <http://e/p0> ?o } WHERE { ?s <http://e/p0> ?o }",
    "DELETE { ?s <http://e/p0> ?o } INSERT { ?o <http://e/p0> ?s } WHERE { ?s <http://e/p0> ?o }",
    "DELETE WHERE { ?s <http://e/p0> ?o }",
    "INSERT DATA { GRAPH <http://e/g7> { <http://e/n9> <http://e/p0> \"v9\" } }",
    "INSERT { <http://e/n9> <http://e/p0> <http://e/n8> }",      // legacy alias
    "DELETE { <http://e/n0> <http://e/p0> <http://e/n1> }",      // legacy alias
    "INSERT DATA { <http://e/n9> <http://e/num> \"NaN\" . <http://e/n9> <http://e/num> \"inf\" . <http://e/n8> <http://e/num> \"NaN\"^^<http://www.w3.org/2001/XMLSchema#double> . <http://e/n8> <http://e/num> 1e400 }",
];
/// Namespace IRIs for the database's own prefix table (reachable through the Turtle loader's @prefix lines and set_prefixes).
const PREFIX_IRIS: [&str; 12] = ["http://e/", "http://e/\\u000\u{e9}", "http://e/\\U0000000\u{e9}", "http://e/\\", "http://e/\\u12", "http://e/\\uD800", "http://e/\\u00e9x", "http://\u{6f22}/\u{1F600}", "", "http://e/\\u\u{1F600}\u{1F600}", "http://e/%zz\\U0010FFFFa", "http://e/a b"];
/// Kolibrie's extension clauses, which the combined grammar accepts in front of a SELECT or an update.
const EXTENSIONS: [&str; 5] = [
    "PREFIX ex: <http://e/>\nRULE :Copy :- CONSTRUCT { ?s ex:q ?o . } WHERE { ?s ex:p0 ?o . }\n",
    "RETRIEVE SOME ACTIVE STREAM ?st FROM <http://e/stream> WITH { ?st <http://e/p0> ?o }\n",
    "REGISTER RSTREAM <http://out/stream> AS SELECT * FROM NAMED WINDOW :w ON :stream [RANGE 10 STEP 2] WHERE { WINDOW :w { ?s1 a <http://e/Type> . } }\n",
    "ML.PREDICT(MODEL \"m\", INPUT { SELECT ?s ?o WHERE { ?s <http://e/p0> ?o . } }, OUTPUT ?label)\n",
    "PREFIX ex: <http://e/>\nRETRIEVE EVERY LATENT STREAM ?st FROM <http://e/stream> WITH { ?st ex:p0 ?o }\nRULE :R2 :- CONSTRUCT { ?s ex:q ?o . } WHERE { ?s ex:p1 ?o . }\n",
];
fn mutate(r: &mut Rng, base: &str) -> String {
    let mut chars: Vec<char> = base.chars().collect();
    let multi = ['é', 'ß', '€', '漢', '😀', '\u{0301}', '\u{200B}', '\u{FEFF}'];
    for _ in 0..(1 + r.usize(3)) {
        let n = chars.len();
        match r.below(13) {
            0 if n > 0 => { chars.remove(r.usize(n)); }
            1 if n > 0 => { let i = r.usize(n); let c = chars[i]; chars.insert(i, c); }
            2 if n > 0 => { chars.truncate(r.usize(n)); }
            3 | 4 | 5 => { let i = r.usize(n + 1); chars.insert(i, *r.pick(&multi)); }
            6 => { let i = r.usize(n + 1); chars.insert(i, *r.pick(&['{', '}', '"', '<', '>', '(', ')', '\'', '\\'])); }
            7 => { let i = r.usize(n + 1); chars.insert(i, '\0'); }
            8 => { let i = r.usize(n + 1); let tok: String = std::iter::repeat(*r.pick(&['a', '?', '<', '9', 'é'])).take(200 + r.usize(2000)).collect(); for (k, c) in tok.chars().enumerate() { chars.insert(i + k, c); } }
            9 if n > 0 => { let i = r.usize(n); chars[i] = *r.pick(&multi); }
            10 => { // multi-byte character right after a token boundary
                let idxs: Vec<usize> = chars.iter().enumerate().filter(|(_, c)| **c == ' ' || **c == '{' || **c == '?').map(|(i, _)| i).collect();
                if !idxs.is_empty() { let i = *r.pick(&idxs); chars.insert(i + 1, *r.pick(&multi)); } }
            11 => { // replace a number token by an extreme one
                let starts: Vec<usize> = (0..n).filter(|&i| chars[i].is_ascii_digit() && (i == 0 || !chars[i - 1].is_ascii_alphanumeric())).collect();
                if !starts.is_empty() { let i = *r.pick(&starts); let mut j = i; while j < chars.len() && chars[j].is_ascii_digit() { j += 1; }
                    let big = *r.pick(&["18446744073709551615", "18446744073709551616", "9223372036854775807", "4294967296", "99999999999999999999999999", "0", "-1", "1e308", "1e-400"]);
                    chars.splice(i..j, big.chars()); } }
            _ => { chars.push(*r.pick(&multi)); }
        }
    }
    chars.into_iter().collect()
}

impl C17 {
    fn exec_inner(&self, c: &HostileCase, ctx: &mut Ctx) -> Option<Violation> {
        let mut db = SparqlDatabase::new(); let mut other = SparqlDatabase::new(); let mut m = Store::default(); let mut bn = 0u64;
        for (i, st) in c.setup.iter().enumerate() { let mut scratch = Ctx::new(false); if step(&mut db, &mut other, &mut m, &mut bn, i, st, &mut scratch).is_err() { break; } }
        for k in 0..c.bulk { db.add_triple_parts(&format!("http://e/n{}", k % 7), "http://e/p0", &format!("http://e/b{}", k)); if k % 3 == 0 { db.add_triple_parts(&format!("http://e/b{}", k), "http://e/p1", &format!("http://e/n{}", k % 5)); } }
        if c.bulk > 0 { ctx.hit("probe.bulk_dataset_over_64_rows"); if c.pool > 64 { ctx.hit("fault.pool_wider_than_the_row_count"); } }
        for (k, iri, via_loader) in &c.prefixes {
            if *via_loader && !iri.contains(char::is_whitespace) && !iri.is_empty() { db.parse_turtle(&format!("@prefix {}: <{}> .\n", k, iri)); ctx.hit("probe.prefix_registered_by_turtle_loader"); } else { db.prefixes.insert(k.clone(), iri.clone()); }
            if iri.contains('\\') || !iri.is_ascii() { ctx.hit("fault.hostile_namespace_in_database_prefix_table"); }
        }
        for (i, rq) in c.reqs.iter().enumerate() {
            let before = raw_state(&db);
            let name = ENTRIES[rq.entry as usize % ENTRIES.len()];
            let pct = |t: &str| -> String { t.bytes().map(|b| format!("%{:02X}", b)).collect() };
            let res: Result<Option<bool>, (String, String)> = guard(|| match rq.entry % 10 {
                0 => Some(execute_sparql_query(&rq.text, &mut db).is_ok()),
                1 => { let _ = execute_query_rayon_parallel2_volcano(&rq.text, &mut db); None }
                2 => Some(execute_sparql_update(&rq.text, &mut db).is_ok()),
                3 => Some(db.execute_update(&rq.text).is_ok()),
                4 => Some(db.handle_update(&rq.text) != "Update Failed"),
                5 => { let http = format!("GET /sparql?query={}{} HTTP/1.1\r\nHost: x\r\n\r\n", pct(&rq.text), rq.form_tail); let out = db.handle_http_request(&http); Some(!out.contains("Query Failed")) }
                6 => { let http = format!("POST /sparql HTTP/1.1\r\nHost: x\r\nContent-Type: application/sparql-query\r\n\r\n{}", rq.text); let out = db.handle_http_request(&http); Some(!out.contains("Query Failed")) }
                7 => { let http = format!("POST /sparql HTTP/1.1\r\nHost: x\r\nContent-Type: application/x-www-form-urlencoded\r\n\r\nquery={}{}", pct(&rq.text), rq.form_tail); let out = db.handle_http_request(&http); Some(!out.contains("Query Failed")) }
                8 => { let http = format!("POST /sparql HTTP/1.1\r\nHost: x\r\nContent-Type: application/x-www-form-urlencoded\r\n\r\nupdate={}{}", pct(&rq.text), rq.form_tail); let out = db.handle_http_request(&http); Some(!out.contains("Update Failed")) }
                _ => { let http = format!("POST /sparql HTTP/1.1\r\nHost: x\r\nContent-Type: application/sparql-update\r\n\r\n{}", rq.text); let out = db.handle_http_request(&http); Some(!out.contains("Update Failed")) }
            });
            let short: String = rq.text.chars().take(120).collect();
            match res {
                Err((loc, msg)) => { let site = loc.rsplit('/').next().unwrap_or("?").to_string(); return Some(Violation::new(&format!("unwind@{}", site), format!("request {} through {} unwound at {}: {} ; text = {:?}", i, name, loc, msg.chars().take(160).collect::<String>(), short))); }
                Ok(ok) => {
                    ev!(ctx.log, "{} {} ok={:?} {:?}", i, name, ok, short);
                    let after = raw_state(&db);
                    let query_path = matches!(rq.entry % 10, 0 | 1 | 5 | 6 | 7);
                    if query_path && after != before { return Some(Violation::new("query-path-modified-data", format!("request {} through {} changed the stored quads or graph catalog; text = {:?}", i, name, short))); }
                    if matches!(rq.entry % 10, 0 | 5 | 6 | 7) && rq.update_shaped && ok == Some(true) { return Some(Violation::new("update-accepted-on-query-path", format!("request {} through {}: update syntax was not refused; text = {:?}", i, name, short))); }
                    if matches!(rq.entry % 10, 0 | 5 | 6 | 7) && rq.update_shaped { ctx.hit("fault.update_submitted_to_query_endpoint"); if rq.ext { ctx.hit("fault.update_behind_extension_clause_on_query_endpoint"); } }
                    if rq.ext && rq.valid_select && ok == Some(true) { ctx.hit("probe.extension_clause_then_select_accepted"); const N: [&str; 5] = ["probe.ext_accepted.rule", "probe.ext_accepted.retrieve", "probe.ext_accepted.register", "probe.ext_accepted.ml_predict", "probe.ext_accepted.retrieve_and_rule"]; if let Some(k) = EXTENSIONS.iter().position(|e| rq.text.starts_with(e)) { ctx.hit(N[k]); } }
                    if rq.ext && rq.update_shaped && !query_path && ok == Some(true) { ctx.hit("probe.extension_clause_then_update_applied"); }
                    if rq.valid_select && ok == Some(true) && (rq.text.contains("MIN(") || rq.text.contains("MAX(")) && before.0.iter().any(|q| db.dictionary.read().unwrap().decode(q.object).map(|o| o.contains("NaN")).unwrap_or(false)) { ctx.hit("probe.min_max_over_stored_nan"); }
                    if !query_path && ok == Some(false) && after != before { return Some(Violation::new("failed-update-changed-dataset", format!("request {} through {} reported failure but the dataset changed; text = {:?}", i, name, short))); }
                    if rq.malformed && ok == Some(true) && !(rq.text.starts_with("SELECT")) { return Some(Violation::new("malformed-request-accepted", format!("request {} through {}: a malformed update was reported as successful; text = {:?}", i, name, short))); }
                    if rq.malformed { ctx.hit("fault.known_malformed_update_submitted"); }
                    if rq.text.contains("TRAIN NEURAL RELATION") { ctx.hit("fault.train_clause_with_nested_request_text"); }
                    if !rq.form_tail.is_empty() { ctx.hit("fault.form_parameter_with_hostile_percent_escapes"); }
                    if ok == Some(false) { ctx.hit("fault.malformed_or_refused_request"); }
                    if !rq.text.is_ascii() { ctx.hit("fault.multibyte_request"); }
                }
            }
        }
        ctx.count("requests", c.reqs.len() as u64);
        ctx.nontrivial(kolibrie_verif_rt::log::fnv(&format!("{:?}", c.reqs)));
        ctx.state(db.dataset_index.all_quads().len() as u64);
        None
    }
}
impl Prop for C17 {
    type Case = HostileCase;
    fn id(&self) -> &'static str { "C17" }
    fn expected_counters(&self) -> Vec<&'static str> { vec!["fault.update_submitted_to_query_endpoint", "fault.update_behind_extension_clause_on_query_endpoint", "fault.malformed_or_refused_request", "fault.multibyte_request", "fault.hostile_namespace_in_database_prefix_table", "probe.prefix_registered_by_turtle_loader", "probe.extension_clause_then_select_accepted", "probe.ext_accepted.rule", "probe.ext_accepted.retrieve", "probe.ext_accepted.register", "probe.ext_accepted.ml_predict", "probe.ext_accepted.retrieve_and_rule", "probe.extension_clause_then_update_applied", "probe.min_max_over_stored_nan", "probe.bulk_dataset_over_64_rows", "fault.pool_wider_than_the_row_count", "fault.known_malformed_update_submitted", "fault.form_parameter_with_hostile_percent_escapes", "fault.train_clause_with_nested_request_text"] }
    fn budget(&self, tier: Tier) -> Budget { match tier { Tier::Quick => Budget { runs: 20_000, wall_s: 60, recheck: 30 }, Tier::Thorough => Budget { runs: 1_500_000, wall_s: 1000, recheck: 100 } } }
    fn hash_seed(&self, c: &HostileCase) -> u64 { c.hash_seed }
    fn gen(&self, seed: u64, _i: u64, _t: Tier) -> HostileCase {
        let mut r = Rng::sub(seed, "workload"); let mut cfg = Rng::sub(seed, "swarm");
        let nsetup = r.usize(12);
        let setup = gen_steps(&mut r, &mut cfg, nsetup).into_iter().filter(|s| !matches!(s, UStep::Rejected(_))).collect();
        let w_mut = 1 + cfg.below(6) as u32;
        let w_ext = cfg.below(4);
        let w_pfx = cfg.below(3);
        let mut prefixes = vec![];
        if w_pfx > 0 { prefixes.push(("d".to_string(), "http://e/".to_string(), r.chance(1, 2))); prefixes.push(("h".to_string(), if w_pfx == 2 { r.pick(&PREFIX_IRIS).to_string() } else { "http://e/".to_string() }, r.chance(1, 2))); }
        let mut reqs = vec![];
        for _ in 0..(8 + r.usize(30)) {
            let is_sel = r.chance(1, 2);
            let base = if is_sel { r.pick(&SELECTS).to_string() } else if w_pfx > 0 && r.chance(1, 10) { "INSERT DATA { h:n9 d:p0 h:n8 }".to_string() } else { r.pick(&UPDATES).to_string() };
            let mutated = r.weighted(&[3, w_mut]) == 1;
            // an extension clause in front of the operation (the combined grammar allows no second prologue after it)
            let ext = w_ext > 0 && !base.starts_with("PREFIX") && r.chance(w_ext, 12);
            let base = if ext { format!("{}{}", r.pick(&EXTENSIONS), base) } else { base };
            let text = if mutated { mutate(&mut r, &base) } else { base };
            let entry = if !mutated && is_sel && !ext && r.chance(1, 4) { 1 } else { *r.pick(&[0u8, 0, 0, 2, 3, 4, 5, 6, 7, 8, 9]) };
            let form_tail = if matches!(entry, 5 | 7 | 8) && r.chance(1, 6) { r.pick(&["%FF", "%C3", "%E9", "%", "%G1", "+%80+", "%F0%9F", "%00", "&x=%FF", "%C3%28"]).to_string() } else { String::new() };
            // MODEL / NEURAL RELATION declarations plus a TRAIN clause whose QUERY block carries update text (or a SELECT without
            // rows): the training loader must refuse it before anything runs, on the query entry points as on the others
            if w_ext > 0 && r.chance(1, 12) {
                let nested = if r.chance(2, 3) { r.pick(&UPDATES).to_string() } else { "SELECT ?s ?x ?label WHERE { ?s <http://e/never> ?x . ?s <http://e/never2> ?label }".to_string() };
                let nested = nested.replace("PREFIX e: <http://e/> ", "").replace("e:", "ex:");
                let t = format!("PREFIX ex: <http://e/>\nMODEL \"flag_model\" {{\n    ARCH MLP {{ HIDDEN [4] }}\n    OUTPUT BINARY {{ \"yes\" }}\n}}\nNEURAL RELATION ex:flag USING MODEL \"flag_model\" {{\n    INPUT {{ ?s ex:x ?x . }}\n    FEATURES {{ ?x }}\n}}\nTRAIN NEURAL RELATION ex:flag {{\n    QUERY {{ {} }}\n    LABEL ?label\n    TARGET {{ ?s ex:flag ?label }}\n    LOSS bce\n    OPTIMIZER adam\n    LEARNING_RATE 0.1\n    EPOCHS 1\n    BATCH_SIZE 1\n}}\n", nested);
                reqs.push(Req { entry: *r.pick(&[0u8, 0, 5, 6, 7, 2]), text: t, valid_select: false, update_shaped: false, ext: true, form_tail: String::new(), malformed: false });
            }
            if r.chance(1, 10) { let t = r.pick(&REJECTED).to_string(); reqs.push(Req { entry: *r.pick(&[2u8, 3, 4, 8, 9]), text: t, valid_select: false, update_shaped: false, ext: false, form_tail: String::new(), malformed: true }); }
            reqs.push(Req { entry, text, valid_select: !mutated && is_sel, update_shaped: !mutated && !is_sel, ext, form_tail, malformed: false });
        }
        HostileCase { hash_seed: Rng::sub(seed, "hash").next(), setup, reqs, prefixes, pool: *cfg.pick(&[1usize, 1, 2, 4, 16, 65, 128, 300]), rayon_seed: Rng::sub(seed, "rayon").next(), bulk: if cfg.chance(1, 5) { 60 + cfg.below(90) as u32 } else { 0 } }
    }
    fn exec(&self, c: &HostileCase, ctx: &mut Ctx) -> Option<Violation> {
        PREFIX_SEED.with(|p| p.set(0));
        rayon::sim_configure(c.rayon_seed, c.pool.max(1));
        let v = self.exec_inner(c, ctx);
        rayon::sim_reset();
        v
    }
    fn shrink(&self, c: &HostileCase) -> Vec<HostileCase> {
        let mut out: Vec<HostileCase> = shrink_vec(&c.reqs).into_iter().filter(|r| !r.is_empty()).map(|r| HostileCase { reqs: r, ..c.clone() }).collect();
        for s in shrink_vec(&c.setup) { out.push(HostileCase { setup: s, ..c.clone() }); }
        for s in shrink_vec(&c.prefixes) { out.push(HostileCase { prefixes: s, ..c.clone() }); }
        // shorten the text of the last request (char-wise halves, then single characters)
        if let Some(last) = c.reqs.last() {
            let chars: Vec<char> = last.text.chars().collect();
            for cand in shrink_vec(&chars).into_iter().take(80) { let mut r = c.reqs.clone(); let k = r.len() - 1; r[k].text = cand.into_iter().collect(); r[k].valid_select = false; r[k].update_shaped = false; out.push(HostileCase { reqs: r, ..c.clone() }); }
        }
        if c.hash_seed != 0 { out.push(HostileCase { hash_seed: 0, ..c.clone() }); }
        out
    }
    fn rule(&self) -> String { "A case is one session: a generated update history builds a database state (in a third of the cases its prefix table holds namespaces registered through the Turtle loader or the prefix API, half of those hostile: escape-like sequences next to multi-byte characters, surrogates, empty), then a hostile client sends 8-38 requests (valid SELECTs incl. MIN/MAX/SUM/AVG over NaN/inf lexical forms, every update form and the legacy aliases, any of them optionally behind a RULE / RETRIEVE / REGISTER / ML.PREDICT extension clause, and mutations of those: deletion/duplication/truncation, 2-4-byte characters before/inside/after tokens, unbalanced braces and quotes, NULs, very long tokens, extreme numbers in place of number tokens and LIMITs up to usize::MAX) through execute_sparql_query, execute_query_rayon_parallel2_volcano (SELECT only), execute_sparql_update, SparqlDatabase::execute_update, handle_update and the HTTP GET query adapter. After every request: query paths leave quad ids and catalog unchanged, update syntax is refused there, a failed update leaves the dataset unchanged, no entry point unwinds. Distinct = hash of the request list (every case is counted non-trivial when it has >= 8 requests). Sessions run under simulated pools of 1-300 workers, a fifth with 60-150 extra triples; the database prefix table may hold hostile namespaces; the known-malformed corpus goes through every update entry point (must fail); form / URL parameters get hostile percent escapes; extreme numbers replace number tokens. MODEL / NEURAL RELATION / TRAIN requests are sent with a nested QUERY text that is an update or a SELECT without rows (no training runs).".into() }
    fn assumptions(&self) -> Vec<String> { vec!["RULE / RETRIEVE / REGISTER / ML.PREDICT clauses are in the corpus in front of SELECTs and updates (none of the ten entry points executes them); MODEL / NEURAL RELATION / TRAIN declarations are sent only with a QUERY block that holds update text or a SELECT without rows, so no training ever runs".into(), "this is seeded mutation of requests inside a stateful session; the simulator's contribution is the state dimension and the per-request whole-state invariant".into()] }
    fn real_vs_stub(&self) -> serde_json::Value { serde_json::json!({"real": ["execute_sparql_query", "execute_query_rayon_parallel2_volcano", "execute_sparql_update", "SparqlDatabase::{execute_update, handle_update, handle_http_request}", "parser", "error_handler"], "simulated": ["the client", "hash keys"], "not_run": ["TCP sockets (run_server)"]}) }
}
