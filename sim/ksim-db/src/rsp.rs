//! rspsim: the RDF stream processing pipeline under the simulator.
//! C09 — a time window reports exactly the stream items of one aligned interval (DESIGN.md 6.7).
use kolibrie::rsp::s2r::{CSPARQLWindow, ContentContainer, Report, ReportStrategy, Tick};
use kolibrie_verif_rt::ev;
use kolibrie_verif_rt::harness::*;
use kolibrie_verif_rt::rng::Rng;
use serde::{Deserialize, Serialize};
use std::collections::BTreeMap;
use std::sync::{Arc, Mutex};

#[derive(Serialize, Deserialize, Clone, Debug)]
pub struct WinCase { pub hash_seed: u64, pub width: usize, pub slide: usize, pub start: usize, pub items: Vec<(u32, usize)>, pub non_empty_strategy: bool, pub channel: bool, pub shuttle_seed: u64, pub pct: bool, #[serde(default)] pub prob_mask: u64, /// flush() is called before these arrival indices (callback path); the merged report it emits is not a window report
    #[serde(default)] pub flush_at: Vec<usize>,
    /// channel variant: the consumer hangs up (drops its receiver) after this many reports while a callback stays registered (0 = never)
    #[serde(default)] pub hangup_after: usize,
    /// drive the same stream through WindowRunner as well, draining its channel at these arrival indices and once after stop()
    #[serde(default)] pub runner_drains: Option<Vec<usize>> }
pub struct C09;
type Content = Vec<(u32, usize)>;

fn snapshot(c: &ContentContainer<u32>) -> Content { let mut v: Content = c.iter_with_timestamps().map(|(i, t)| (*i, t)).collect(); v.sort(); v }
fn interval_content(arrivals: &[(u32, usize)], lo: usize, hi: usize) -> Content { let mut m: BTreeMap<u32, usize> = BTreeMap::new(); for (i, t) in arrivals { if *t >= lo && *t < hi { let e = m.entry(*i).or_insert(*t); if *t > *e { *e = *t; } } } m.into_iter().collect() }

pub fn shuttle_run<F: Fn() + Send + Sync + 'static>(seed: u64, pct: bool, max_steps: usize, f: F) -> Result<(), (String, String)> {
    let mut cfg = shuttle::Config::new(); cfg.stack_size = 4 << 20; cfg.max_steps = shuttle::MaxSteps::FailAfter(max_steps); cfg.failure_persistence = shuttle::FailurePersistence::None;
    let r = if pct { let s = shuttle::scheduler::PctScheduler::new_from_seed(seed, 3, 1); let runner = shuttle::Runner::new(s, cfg); guard(move || { runner.run(move || { kolibrie_verif_rt::set_sim(true); f() }); }) }
            else { let s = shuttle::scheduler::RandomScheduler::new_from_seed(seed, 1); let runner = shuttle::Runner::new(s, cfg); guard(move || { runner.run(move || { kolibrie_verif_rt::set_sim(true); f() }); }) };
    kolibrie_verif_rt::set_sim(false);
    r
}

impl Prop for C09 {
    type Case = WinCase;
    fn id(&self) -> &'static str { "C09" }
    fn expected_counters(&self) -> Vec<&'static str> { vec!["fault.shuttle_scheduled_channel_consumer", "probe.width_smaller_than_slide", "probe.width_not_multiple_of_slide", "fault.burst_same_timestamp", "fault.jump_larger_than_width", "fault.flush_in_the_middle_of_the_stream", "fault.channel_consumer_hangs_up_mid_stream", "probe.window_runner_drained_after_stop"] }
    fn budget(&self, tier: Tier) -> Budget { match tier { Tier::Quick => Budget { runs: 60_000, wall_s: 60, recheck: 40 }, Tier::Thorough => Budget { runs: 6_000_000, wall_s: 1000, recheck: 200 } } }
    fn hash_seed(&self, c: &WinCase) -> u64 { c.hash_seed }
    fn gen(&self, seed: u64, _i: u64, _t: Tier) -> WinCase {
        let mut r = Rng::sub(seed, "workload"); let mut cfg = Rng::sub(seed, "swarm");
        let width = 1 + r.usize(12); let slide = 1 + r.usize(12);
        let n = 1 + r.usize(if cfg.chance(1, 4) { 40 } else { 14 });
        let gapmode = cfg.below(5);
        let dup = cfg.chance(1, 4);
        let mut items = vec![];
        for k in 0..n {
            let gap = match gapmode { 0 => r.usize(slide + 1), 1 => r.usize(4), 2 => r.usize(3 * (width + slide)), 3 => if r.chance(1, 5) { 0 } else { r.usize(slide + 1) }, _ => if r.chance(1, 6) { width * 3 + r.usize(50) } else { r.usize(2) } };
            items.push((if dup { r.below(5) as u32 } else { k as u32 }, gap));
        }
        let channel = cfg.chance(1, 6);
        WinCase { hash_seed: Rng::sub(seed, "hash").next(), width, slide, start: r.usize(6), items, non_empty_strategy: cfg.chance(1, 6), channel, shuttle_seed: Rng::sub(seed, "shuttle").next(), pct: cfg.chance(1, 2), prob_mask: if cfg.chance(1, 4) { r.next() } else { 0 }, flush_at: if cfg.chance(1, 5) { (0..(1 + r.usize(2))).map(|_| 1 + r.usize(n)).collect() } else { vec![] },
            hangup_after: if channel && cfg.chance(1, 2) { 1 + r.usize(4) } else { 0 }, runner_drains: if cfg.chance(1, 5) { Some((0..r.usize(4)).map(|_| r.usize(n)).collect()) } else { None } }
    }
    fn exec(&self, c: &WinCase, ctx: &mut Ctx) -> Option<Violation> {
        if c.width == 0 || c.slide == 0 || c.items.is_empty() { return None; }
        let (w, s) = (c.width, c.slide);
        let mut arrivals: Vec<(u32, usize)> = vec![]; let mut t = c.start;
        for (k, (id, gap)) in c.items.iter().enumerate() { if k > 0 { t += gap; } arrivals.push((*id, t)); }
        let mk = |non_empty: bool| { let mut report = Report::new(); report.add(ReportStrategy::OnWindowClose); if non_empty { report.add(ReportStrategy::NonEmptyContent); } CSPARQLWindow::new(w, s, report, Tick::TimeDriven, "w".to_string()) };
        // ---- callback delivery: the firing is attributed to the arrival that triggered it
        let fired: Arc<Mutex<Vec<Content>>> = Arc::new(Mutex::new(vec![]));
        let mut win = mk(c.non_empty_strategy);
        let f2 = fired.clone();
        win.register_callback(Box::new(move |cc: ContentContainer<u32>| { f2.lock().unwrap().push(snapshot(&cc)); }));
        let mut firings: Vec<(usize, Content)> = vec![];
        // some items arrive as probabilistic occurrences (the twin ingestion path of the window)
        let mut registry = shared::hybrid::SeedRegistry::new();
        for (k, (id, ts)) in arrivals.iter().enumerate() {
            // a flush in the middle of the stream hands the consumer one merged container (dropped here) and must leave the open
            // windows as they are
            if c.flush_at.contains(&k) { let b = fired.lock().unwrap().len(); win.flush(); fired.lock().unwrap().truncate(b); ctx.hit("fault.flush_in_the_middle_of_the_stream"); }
            let before = fired.lock().unwrap().len();
            if (c.prob_mask >> (k % 64)) & 1 == 1 {
                let event = registry.next_event_key("s", *ts);
                match registry.register_occurrence(event.clone(), shared::triple::Triple { subject: *id, predicate: 0, object: 0 }, 0.5) { Ok(seed_id) => { win.add_probabilistic_to_window(kolibrie::rsp::s2r::ProbabilisticOccurrence { item: *id, event, seed_id }); ctx.hit("fault.probabilistic_occurrence_ingested"); } Err(_) => win.add_to_window(*id, *ts) }
            } else { win.add_to_window(*id, *ts); }
            let g = fired.lock().unwrap();
            if g.len() > before + 1 { return Some(Violation::new("several-reports-for-one-arrival", format!("arrival ({}, t={}) triggered {} reports", id, ts, g.len() - before))); }
            if g.len() > before { firings.push((*ts, g.last().unwrap().clone())); ev!(ctx.log, "t={} fires {:?}", ts, g.last().unwrap()); }
        }
        // ---- soundness: every content is the item set of one aligned interval [c-w, c), c <= trigger, c's non-decreasing and none twice, triggers strictly increasing
        let mut last_c = 0usize; let mut last_trig: Option<usize> = None; let mut reported: Vec<usize> = vec![];
        for (trig, content) in &firings {
            if let Some(lt) = last_trig { if *trig <= lt { return Some(Violation::new("trigger-times-not-increasing", format!("width {} slide {}: reports triggered at {} then {}", w, s, lt, trig))); } }
            last_trig = Some(*trig);
            let mut found = None; let mut cc = ((last_c + s - 1) / s) * s;
            while cc <= *trig { let lo = cc.saturating_sub(w); if &interval_content(&arrivals, lo, cc) == content && !(reported.contains(&cc) && !content.is_empty()) { found = Some(cc); break; } cc += s; }
            match found {
                Some(cc) => { last_c = cc; reported.push(cc); }
                None => {
                    // explain: is it a foreign item, a missing item, or an unaligned / future / repeated interval?
                    let any_aligned = (0..=(*trig / s + 1)).map(|k| k * s).any(|cc| &interval_content(&arrivals, cc.saturating_sub(w), cc) == content);
                    let class = if any_aligned { "interval-out-of-order-or-after-trigger" } else { "content-is-not-an-aligned-interval" };
                    return Some(Violation::new(class, format!("width {} slide {} arrivals {:?}: the report triggered at t={} has content {:?}, which is not the item set of an interval [c-{}, c) with c a multiple of {} , {} <= c <= {}", w, s, arrivals, trig, content, w, s, last_c, trig)));
                }
            }
        }
        // ---- completeness when consecutive timestamps are at most one slide apart: every NON-EMPTY closing interval is reported exactly once
        let dense = arrivals.windows(2).all(|p| p[1].1 - p[0].1 <= s);
        if dense {
            ctx.hit("class.gaps_at_most_one_slide");
            let first = arrivals[0].1; let last = arrivals.last().unwrap().1;
            let mut cc = ((first / s) + 1) * s;
            while cc <= last {
                let exp = interval_content(&arrivals, cc.saturating_sub(w), cc);
                if !exp.is_empty() { let k = firings.iter().filter(|(_, cont)| cont == &exp).count(); let same_elsewhere = { let mut n = 0; let mut c2 = s; while c2 <= last { if c2 != cc && interval_content(&arrivals, c2.saturating_sub(w), c2) == exp { n += 1; } c2 += s; } n };
                    if k == 0 || (k != 1 && same_elsewhere == 0) { return Some(Violation::new(if k == 0 { "closing-interval-not-reported" } else { "interval-reported-twice" }, format!("width {} slide {} arrivals {:?}: interval [{}, {}) with content {:?} was reported {} times", w, s, arrivals, cc.saturating_sub(w), cc, exp, k))); } }
                cc += s;
            }
        } else { ctx.hit("class.gaps_larger_than_slide"); }
        // ---- channel delivery under a seeded schedule gives the same sequence
        if c.channel {
            let out: Arc<Mutex<Vec<Content>>> = Arc::new(Mutex::new(vec![]));
            let (o2, arr2, ne) = (out.clone(), arrivals.clone(), c.non_empty_strategy);
            let hang = c.hangup_after; let cb_out: Arc<Mutex<Vec<Content>>> = Arc::new(Mutex::new(vec![])); let cb2 = cb_out.clone();
            let r = shuttle_run(c.shuttle_seed, c.pct, 500_000, move || {
                let mut report = Report::new(); report.add(ReportStrategy::OnWindowClose); if ne { report.add(ReportStrategy::NonEmptyContent); }
                let mut win: CSPARQLWindow<u32> = CSPARQLWindow::new(w, s, report, Tick::TimeDriven, "w".to_string());
                let rx = win.register();
                let o3 = o2.clone();
                // with a hang-up the window also has a callback, which must go on receiving every report after the consumer left
                if hang > 0 { let cb = cb2.clone(); win.register_callback(Box::new(move |cc: ContentContainer<u32>| { cb.lock().unwrap().push(snapshot(&cc)); })); }
                let h = kolibrie_verif_rt::thread::spawn(move || { let mut k = 0usize; while let Ok(cc) = rx.recv() { o3.lock().unwrap().push(snapshot(&cc)); k += 1; if hang > 0 && k >= hang { break; } } drop(rx); });
                for (id, ts) in &arr2 { win.add_to_window(*id, *ts); }
                win.stop(); drop(win);
                let _ = h.join();
            });
            ctx.hit("fault.shuttle_scheduled_channel_consumer");
            if let Err((loc, msg)) = r { return Some(Violation::new("channel-consumer-deadlock-or-panic", format!("window + channel consumer under schedule seed {}: {} @ {}", c.shuttle_seed, msg.chars().take(200).collect::<String>(), loc))); }
            let got = out.lock().unwrap().clone(); let want: Vec<Content> = firings.iter().map(|f| f.1.clone()).collect();
            if hang > 0 && c.flush_at.is_empty() {
                ctx.hit("fault.channel_consumer_hangs_up_mid_stream");
                let cbs = cb_out.lock().unwrap().clone();
                if cbs != want { return Some(Violation::new("callback-disturbed-by-consumer-hangup", format!("width {} slide {}: after the channel consumer hung up (after {} reports) the callback of the same window saw {} reports, a window without that consumer {} (schedule seed {}); first difference at report {}", w, s, hang, cbs.len(), want.len(), c.shuttle_seed, cbs.iter().zip(want.iter()).position(|(a, b)| a != b).unwrap_or(cbs.len().min(want.len()))))); }
                if got.len() > want.len() || got[..] != want[..got.len()] { return Some(Violation::new("channel-and-callback-differ", format!("width {} slide {}: the channel delivered {:?} before the consumer hung up, the callback sequence starts {:?}", w, s, got, &want[..got.len().min(want.len())]))); }
            } else if got != want && hang == 0 { return Some(Violation::new("channel-and-callback-differ", format!("width {} slide {}: callback delivered {} reports, the channel {} (schedule seed {})", w, s, want.len(), got.len(), c.shuttle_seed))); }
        }
        // ---- the same stream through WindowRunner (push / drain / stop): what its channel hands out, drained at arbitrary moments and
        // once more after stop(), is the callback sequence
        if let Some(drains) = &c.runner_drains {
            if c.prob_mask == 0 && c.flush_at.is_empty() {
                use kolibrie::rsp::window_runner::{WindowRunner, WindowSpec};
                let mut strategies = vec![ReportStrategy::OnWindowClose]; if c.non_empty_strategy { strategies.push(ReportStrategy::NonEmptyContent); }
                let mut runner: WindowRunner<u32> = WindowRunner::new(WindowSpec { width: w, slide: s, report_strategies: strategies, tick: Tick::TimeDriven }, "w".to_string());
                runner.start_receiver();
                let mut got: Vec<Content> = vec![];
                for (k, (id, ts)) in arrivals.iter().enumerate() { if drains.contains(&k) { got.extend(runner.drain().iter().map(snapshot)); } runner.push(*id, *ts); }
                runner.stop();
                got.extend(runner.drain().iter().map(snapshot));
                ctx.hit("probe.window_runner_drained_after_stop");
                let want: Vec<Content> = firings.iter().map(|f| f.1.clone()).collect();
                if got != want { return Some(Violation::new("runner-channel-and-callback-differ", format!("width {} slide {}: WindowRunner (drained before arrivals {:?} and after stop) handed out {} reports, the callback of a plain window {}; first difference at report {}", w, s, drains, got.len(), want.len(), got.iter().zip(want.iter()).position(|(a, b)| a != b).unwrap_or(got.len().min(want.len()))))); }
            }
        }
        if firings.len() >= 2 { ctx.nontrivial(kolibrie_verif_rt::log::fnv(&format!("{} {} {:?}", w, s, arrivals))); }
        if w < s { ctx.hit("probe.width_smaller_than_slide"); }
        if w % s != 0 { ctx.hit("probe.width_not_multiple_of_slide"); }
        if arrivals.windows(2).any(|p| p[1].1 == p[0].1) { ctx.hit("fault.burst_same_timestamp"); }
        if arrivals.windows(2).any(|p| p[1].1 - p[0].1 > w) { ctx.hit("fault.jump_larger_than_width"); }
        ctx.count("reports", firings.len() as u64);
        ctx.sim_ns += (arrivals.last().unwrap().1 as u64) * 1_000_000_000;
        ctx.state(kolibrie_verif_rt::log::fnv(&format!("{:?}", firings.last())));
        None
    }
    fn shrink(&self, c: &WinCase) -> Vec<WinCase> {
        let mut out: Vec<WinCase> = shrink_vec(&c.items).into_iter().filter(|x| !x.is_empty()).map(|x| WinCase { items: x, ..c.clone() }).collect();
        for (i, it) in c.items.iter().enumerate() { if it.1 > 0 { let mut x = c.items.clone(); x[i].1 = it.1 / 2; out.push(WinCase { items: x, ..c.clone() }); } }
        if c.start > 0 { out.push(WinCase { start: 0, ..c.clone() }); }
        if c.width > 1 { out.push(WinCase { width: c.width - 1, ..c.clone() }); }
        if c.slide > 1 { out.push(WinCase { slide: c.slide - 1, ..c.clone() }); }
        if c.channel { out.push(WinCase { channel: false, ..c.clone() }); }
        if c.non_empty_strategy { out.push(WinCase { non_empty_strategy: false, ..c.clone() }); }
        if c.prob_mask != 0 { out.push(WinCase { prob_mask: 0, ..c.clone() }); }
        if !c.flush_at.is_empty() { out.push(WinCase { flush_at: vec![], ..c.clone() }); }
        if c.hangup_after > 0 { out.push(WinCase { hangup_after: 0, ..c.clone() }); }
        if c.runner_drains.is_some() { out.push(WinCase { runner_drains: None, ..c.clone() }); out.push(WinCase { runner_drains: Some(vec![]), ..c.clone() }); }
        out
    }
    fn rule(&self) -> String { "A case is one in-order stream (<= 40 items, bursts with equal timestamps, gaps <= slide, small gaps, jumps far beyond the width, repeated items) pushed into a real CSPARQLWindow with width, slide in 1..12 (independently; width < slide and width not a multiple of slide included) through the callback and - in 1 run in 12 - through the channel with a consumer thread under a seeded shuttle schedule. Oracle over the recorded history: every report is the item set of one aligned interval not after its trigger, triggers strictly increase, intervals are non-decreasing and none is reported twice; with gaps <= slide every non-empty closing interval is reported exactly once; channel and callback agree. Non-trivial = at least 2 reports; distinct = hash of (width, slide, arrivals). A fifth of the streams call flush() once or twice in mid-stream (its merged report is dropped; later reports must be unaffected). Half of the channel cases let the consumer hang up after 1-4 reports while a callback of the same window keeps counting; a fifth of the cases push the stream through WindowRunner as well (drain at random moments and after stop()).".into() }
    fn assumptions(&self) -> Vec<String> { vec!["the completeness clause is checked for intervals that contain at least one item: for width < slide the implementation never creates windows that hold no item, and whether an empty interval 'closes' is not observable from the statement".into()] }
    fn real_vs_stub(&self) -> serde_json::Value { serde_json::json!({"real": ["kolibrie::rsp::s2r::{CSPARQLWindow, Report, ContentContainer}"], "simulated": ["event source (timestamps, bursts, stalls, jumps)", "std mpsc channel + consumer thread (shuttle, seeded Random / PCT scheduler)", "hash keys"], "not_run": []}) }
}

// =====================================================================================================================
// C10 — each firing of a continuous query sees exactly the current window, nothing older; same sequence in both modes
// C11 — multi-window results are joins of what each window itself reported
use kolibrie::rsp_engine::{OperationMode, QueryExecutionMode, RSPBuilder, RSPEngine, ResultConsumer, SimpleR2R};
use models::datalog::{self as dm, Fact, Pat};
use shared::query::{Fallback, SyncPolicy};
use shared::triple::Triple;
use std::collections::{BTreeSet, HashMap};

pub type Row = Vec<(String, String)>;
fn iri(x: &str) -> String { format!("http://t/{}", x) }
fn term_txt(t: &str) -> String { if t.starts_with('?') { t.to_string() } else { format!("<{}>", t) } }
fn pats_txt(ps: &[Pat]) -> String { ps.iter().map(|p| format!("{} {} {} . ", term_txt(&p.0), term_txt(&p.1), term_txt(&p.2))).collect() }
fn rule_txt(r: &dm::Rule) -> String { let body = |ps: &[Pat]| ps.iter().map(|p| format!("{} {} {}", term_txt(&p.0), term_txt(&p.1), term_txt(&p.2))).collect::<Vec<_>>().join(" . "); format!("{{ {} }} => {{ {} }}", body(&r.prem), body(&r.conc)) }
fn rows_of(block: &[Pat], facts: &BTreeSet<Fact>) -> Vec<Row> { let fv: Vec<Fact> = facts.iter().cloned().collect(); dm::match_premises(block, &fv).into_iter().map(|b| { let mut r: Row = b.into_iter().map(|(k, v)| (k[1..].to_string(), v)).collect(); r.sort(); r }).collect() }
fn block_vars(block: &[Pat]) -> BTreeSet<String> { block.iter().flat_map(|p| [p.0.clone(), p.1.clone(), p.2.clone()]).filter(|t| t.starts_with('?')).map(|t| t[1..].to_string()).collect() }

#[derive(Serialize, Deserialize, Clone, Debug)]
pub struct Ev { pub gap: usize, pub stream: usize, pub s: String, pub p: String, pub o: String, #[serde(default)] pub advance_ms: u64 }
#[derive(Serialize, Deserialize, Clone, Debug)]
pub struct SingleCase { pub hash_seed: u64, pub width: usize, pub slide: usize, pub op: u8, pub rules: Vec<dm::Rule>, pub block: Vec<Pat>, pub start: usize, pub events: Vec<Ev>, pub schedules: Vec<(u64, bool)>,
    /// the client calls stop() (which flushes the window: one more firing over everything still in it) before dropping the engine
    #[serde(default)] pub stop_first: bool }
pub struct C10;
const OPS: [&str; 3] = ["RSTREAM", "ISTREAM", "DSTREAM"];

type Engine = RSPEngine<Triple, Row>;
// observable interleaving of one execution: 'P' = the source pushed an event, 'R' = the consumer received a row (all simulated
// threads are coroutines on the run's OS thread, so a thread-local sees them all)
thread_local! { static TRACE: std::cell::RefCell<Vec<u8>> = const { std::cell::RefCell::new(Vec::new()) }; }
fn trace(b: u8) { TRACE.with(|t| t.borrow_mut().push(b)); }
fn take_trace_hash() -> (u64, bool) { TRACE.with(|t| { let v = std::mem::take(&mut *t.borrow_mut()); let interleaved = v.windows(2).filter(|w| w[0] != w[1]).count() > 2; (kolibrie_verif_rt::log::fnv(&String::from_utf8_lossy(&v)), interleaved) }) }
fn build_engine(query: &str, rules: &str, mode: OperationMode, policy: Option<SyncPolicy>, out: Arc<Mutex<Vec<Row>>>) -> Result<Engine, String> {
    let consumer = ResultConsumer { function: Arc::new(move |r: Row| { trace(b'R'); out.lock().unwrap().push(r); }) };
    let r2r = Box::new(SimpleR2R::with_execution_mode(QueryExecutionMode::Volcano));
    let mut b = RSPBuilder::new().add_rsp_ql_query(query).add_rules(rules).add_consumer(consumer).add_r2r(r2r).set_operation_mode(mode);
    if let Some(p) = policy { b = b.set_sync_policy(p); }
    b.build().map_err(|e| e.to_string())
}
fn probe_window(width: usize, slide: usize, sink: Arc<Mutex<Vec<Vec<Triple>>>>) -> CSPARQLWindow<Triple> {
    let mut report = Report::new(); report.add(ReportStrategy::OnWindowClose);
    let mut w = CSPARQLWindow::<Triple>::new(width, slide, report, Tick::TimeDriven, "probe".into());
    w.register_callback(Box::new(move |c: ContentContainer<Triple>| { sink.lock().unwrap().push(c.iter().cloned().collect()); }));
    w
}
fn rules_parse_fully(rules_txt: &str) -> bool {
    if rules_txt.trim().is_empty() { return true; }
    let mut re = datalog::reasoning::Reasoner::new(); let mut rest: &str = rules_txt; let mut n = 0;
    loop { match datalog::parser_n3_logic::parse_n3_rule(rest, &mut re) { Ok((r, _)) => { n += 1; rest = r; if rest.trim().is_empty() { return n == rules_txt.lines().filter(|l| !l.trim().is_empty()).count(); } } Err(_) => return false } }
}

struct SingleOut { rows: Vec<Row>, marks: Vec<usize>, contents: Vec<(usize, BTreeSet<Fact>)> }
fn single_scenario(c: &SingleCase, mode: OperationMode, out: Arc<Mutex<Vec<Row>>>) -> Result<SingleOut, String> {
    let q = format!("REGISTER {} <http://out/stream> AS SELECT * FROM NAMED WINDOW :w ON ?stream [RANGE {} STEP {}] WHERE {{ WINDOW :w {{ {} }} }}", OPS[c.op as usize % 3], c.width, c.slide, pats_txt(&c.block));
    let rules_txt: String = c.rules.iter().map(|r| rule_txt(r) + "\n").collect();
    let mut e = build_engine(&q, &rules_txt, mode, None, out.clone())?;
    let conts: Arc<Mutex<Vec<Vec<Triple>>>> = Arc::new(Mutex::new(vec![]));
    let mut probe = probe_window(c.width, c.slide, conts.clone());
    let mut names: HashMap<Triple, Fact> = HashMap::new();
    let mut ts = c.start; let mut marks = vec![]; let mut contents = vec![];
    let pauses = c.events.iter().any(|e| e.advance_ms > 0);
    if pauses { kolibrie_verif_rt::clock::install(1_000_000); }
    for (i, ev) in c.events.iter().enumerate() {
        if i > 0 { ts += ev.gap; }
        // a quiet stream: wall-clock (simulated) time passes between two items; application time does not depend on it
        if ev.advance_ms > 0 { kolibrie_verif_rt::clock::advance(ev.advance_ms * 1_000_000); kolibrie_verif_rt::thread::sleep(std::time::Duration::ZERO); }
        let f: Fact = (ev.s.clone(), ev.p.clone(), ev.o.clone());
        let triples = e.parse_data(&format!("<{}> <{}> <{}> .", f.0, f.1, f.2));
        if triples.len() != 1 { return Err(format!("parse_data returned {} triples for one statement", triples.len())); }
        let t = triples[0].clone(); names.insert(t.clone(), f);
        let cb = conts.lock().unwrap().len();
        probe.add_to_window(t.clone(), ts);
        trace(b'P');
        e.add_to_stream("s", t, ts);
        let cg = conts.lock().unwrap();
        if cg.len() > cb { contents.push((i, cg.last().unwrap().iter().map(|t| names[t].clone()).collect())); }
        marks.push(out.lock().unwrap().len());
    }
    if c.stop_first {
        // stop() flushes the window (a last firing over the merged content of the windows still open), then closes its channel
        let cb = conts.lock().unwrap().len();
        probe.flush();
        e.stop();
        let cg = conts.lock().unwrap();
        if cg.len() > cb { contents.push((c.events.len(), cg.last().unwrap().iter().map(|t| names[t].clone()).collect())); }
        marks.push(out.lock().unwrap().len());
    }
    if pauses { kolibrie_verif_rt::clock::advance(3_600_000_000_000); kolibrie_verif_rt::thread::sleep(std::time::Duration::ZERO); }
    drop(e); // closes the channels: the worker must drain every queued firing and terminate
    if pauses { kolibrie_verif_rt::clock::uninstall(); }
    // (in multi-thread mode the rows are complete only once every simulated thread has exited: the caller re-reads `out` then)
    let rows = out.lock().unwrap().clone();
    Ok(SingleOut { rows, marks, contents })
}
/// expected emission per firing: answers over exactly the window content plus its closure under the rules, through the stream operator
fn expected_firings(c: &SingleCase, contents: &[(usize, BTreeSet<Fact>)]) -> Vec<Vec<Row>> {
    let mut prev: BTreeSet<Row> = BTreeSet::new(); let mut out = vec![];
    for (_, k) in contents {
        let closed = dm::least_model(k, &c.rules);
        let rows = rows_of(&c.block, &closed);
        let rowset: BTreeSet<Row> = rows.iter().cloned().collect();
        let e: Vec<Row> = match c.op % 3 { 0 => rows.clone(), 1 => rows.iter().filter(|r| !prev.contains(*r)).cloned().collect(), _ => prev.iter().filter(|r| !rowset.contains(*r)).cloned().collect() };
        prev = rowset; out.push(e);
    }
    out
}
fn sorted(mut v: Vec<Row>) -> Vec<Row> { v.sort(); v }

impl Prop for C10 {
    type Case = SingleCase;
    fn id(&self) -> &'static str { "C10" }
    fn expected_counters(&self) -> Vec<&'static str> { vec!["probe.raw_item_equals_fact_derived_in_previous_firing", "fault.shuttle_schedule_executed", "probe.consumer_rows_interleaved_with_pushes", "probe.rules_loaded", "probe.firing_with_a_non_empty_newest_closed_interval"] }
    fn budget(&self, tier: Tier) -> Budget { match tier { Tier::Quick => Budget { runs: 8000, wall_s: 60, recheck: 20 }, Tier::Thorough => Budget { runs: 400_000, wall_s: 1000, recheck: 60 } } }
    fn hash_seed(&self, c: &SingleCase) -> u64 { c.hash_seed }
    fn gen(&self, seed: u64, _i: u64, tier: Tier) -> SingleCase {
        let mut r = Rng::sub(seed, "workload"); let mut cfg = Rng::sub(seed, "swarm"); let mut sr = Rng::sub(seed, "schedules");
        let width = 1 + r.usize(6); let slide = 1 + r.usize(4);
        let preds = ["p", "q", "r"]; let node = |r: &mut Rng| iri(&format!("n{}", r.usize(3)));
        let pool: Vec<dm::Rule> = vec![
            dm::Rule { prem: vec![("?s".into(), iri("p"), "?o".into())], conc: vec![("?s".into(), iri("q"), "?o".into())], ..Default::default() },
            dm::Rule { prem: vec![("?s".into(), iri("p"), "?o".into()), ("?o".into(), iri("p"), "?z".into())], conc: vec![("?s".into(), iri("r"), "?z".into())], ..Default::default() },
            dm::Rule { prem: vec![("?s".into(), iri("q"), "?o".into())], conc: vec![("?o".into(), iri("r"), "?s".into())], ..Default::default() },
            dm::Rule { prem: vec![("?s".into(), iri("r"), "?o".into()), ("?o".into(), iri("q"), "?z".into())], conc: vec![("?z".into(), iri("q"), "?s".into())], ..Default::default() },
            dm::Rule { prem: vec![("?s".into(), iri("p"), "?s".into())], conc: vec![("?s".into(), iri("loop"), iri("n0"))], ..Default::default() },
        ];
        let rules: Vec<dm::Rule> = pool.into_iter().filter(|_| r.chance(2, 5)).take(3).collect();
        let k = 1 + r.usize(3); let vars = ["?a", "?b", "?c", "?d"];
        let varpred = cfg.chance(1, 6);
        let block: Vec<Pat> = (0..k).map(|i| (if r.chance(1, 5) { node(&mut r) } else { vars[i].to_string() }, if varpred && i == 0 { "?pv".to_string() } else { iri(preds[r.usize(3)]) }, if r.chance(1, 5) { node(&mut r) } else { vars[i + 1].to_string() })).collect();
        let collisions = cfg.chance(1, 3);
        let gapmode = cfg.below(5);
        let quiet = cfg.chance(1, 3);
        let n = 4 + r.usize(16);
        let events = (0..n).map(|_| Ev { gap: match gapmode { 0 => r.usize(2), 1 => r.usize(slide + 1), 2 => if r.chance(1, 5) { 2 * width + r.usize(6) } else { r.usize(3) }, 4 => if r.chance(1, 3) { r.usize(width + 1) } else { r.usize(2) }, _ => 1 + r.usize(2) }, stream: 0, s: node(&mut r), p: iri(if collisions { preds[r.usize(3)] } else { "p" }), o: node(&mut r), advance_ms: if quiet && r.chance(1, 5) { 500 + r.below(5000) } else { 0 } }).collect();
        let ns = if tier == Tier::Quick { 3 } else { 8 };
        SingleCase { hash_seed: Rng::sub(seed, "hash").next(), width, slide, op: r.below(3) as u8, rules, block, start: r.usize(3), events, schedules: (0..ns).map(|i| (sr.next(), i % 2 == 1)).collect(), stop_first: cfg.chance(1, 2) }
    }
    fn exec(&self, c: &SingleCase, ctx: &mut Ctx) -> Option<Violation> {
        if c.events.is_empty() || c.block.is_empty() || c.width == 0 || c.slide == 0 { return None; }
        let rules_txt: String = c.rules.iter().map(|r| rule_txt(r) + "\n").collect();
        if !rules_parse_fully(&rules_txt) { ctx.hit("rule_text_not_accepted_skipped"); return None; }
        // ---- mode A: single thread
        let a = match guard(|| single_scenario(c, OperationMode::SingleThread, Arc::new(Mutex::new(vec![])))) { Ok(Ok(a)) => a, Ok(Err(e)) => { ctx.hit("engine_build_rejected_skipped"); ev!(ctx.log, "build: {}", e); return None; } Err((loc, msg)) => return Some(Violation::new("unwind", format!("single-thread engine unwound at {}: {}", loc, msg.chars().take(200).collect::<String>()))) };
        let expect = expected_firings(c, &a.contents);
        ev!(ctx.log, "single-thread: {} events, {} firings, {} rows", c.events.len(), a.contents.len(), a.rows.len());
        // "the current window, nothing older": when the newest interval that has closed at the firing's timestamp, [k-RANGE, k) with
        // k = floor(ts / STEP) * STEP, holds items and was not the subject of the previous firing, it is the window the firing is about
        {
            let mut tss = vec![]; let mut t = c.start; for (i, ev) in c.events.iter().enumerate() { if i > 0 { t += ev.gap; } tss.push(t); }
            for (fi, (i, content)) in a.contents.iter().enumerate() {
                if *i >= tss.len() { continue; } // the flush firing of stop() is not about an interval
                let k = (tss[*i] / c.slide) * c.slide; let lo = k.saturating_sub(c.width);
                let newest: BTreeSet<Fact> = (0..=*i).filter(|j| tss[*j] >= lo && tss[*j] < k).map(|j| (c.events[j].s.clone(), c.events[j].p.clone(), c.events[j].o.clone())).collect();
                if !newest.is_empty() { ctx.hit("probe.firing_with_a_non_empty_newest_closed_interval"); }
                if !newest.is_empty() && &newest != content && (fi == 0 || a.contents[fi - 1].1 != newest) {
                    return Some(Violation::new("firing-over-a-stale-window", format!("[RANGE {} STEP {}]: the firing at event {} (t={}) is about the content {:?}, but the newest interval closed by then, [{}, {}), holds {:?}", c.width, c.slide, i, tss[*i], content, lo, k, newest)));
                }
            }
        }
        let mut start = 0usize; let mut fi = 0usize;
        for (i, mark) in a.marks.iter().enumerate() {
            let got = a.rows[start..*mark].to_vec(); start = *mark;
            let fired = fi < a.contents.len() && a.contents[fi].0 == i;
            if !fired { if !got.is_empty() { return Some(Violation::new("rows-without-window-report", format!("event {} did not close a window but {} rows were emitted: {:?}", i, got.len(), got.first()))); } continue; }
            let want = expect[fi].clone();
            ev!(ctx.log, "firing {} at event {}: content {} facts, expected {} rows, got {}", fi, i, a.contents[fi].1.len(), want.len(), got.len());
            if sorted(got.clone()) != sorted(want.clone()) {
                let (g, w) = (sorted(got), sorted(want));
                let extra: Vec<&Row> = g.iter().filter(|r| !w.contains(r)).take(2).collect(); let missing: Vec<&Row> = w.iter().filter(|r| !g.contains(r)).take(2).collect();
                // is an unexpected row explained by older content (an evicted item or an earlier firing's derived fact)?
                let older: BTreeSet<Fact> = a.contents[..fi].iter().flat_map(|(_, k)| dm::least_model(k, &c.rules)).collect();
                let all: BTreeSet<Fact> = older.union(&dm::least_model(&a.contents[fi].1, &c.rules)).cloned().collect();
                let from_older = !extra.is_empty() && extra.iter().all(|r| rows_of(&c.block, &all).contains(r));
                let class = if !missing.is_empty() && extra.is_empty() { "firing-misses-current-window-answers" } else if from_older && c.op % 3 == 0 { "firing-sees-older-content" } else { "firing-differs" };
                return Some(Violation::new(class, format!("{} [RANGE {} STEP {}] block {{ {} }} rules {:?}: firing {} (event {}) over window content {:?} should emit {} rows, emitted {}; missing {:?}, unexpected {:?}", OPS[c.op as usize % 3], c.width, c.slide, pats_txt(&c.block), rules_txt, fi, i, a.contents[fi].1, w.len(), g.len(), missing, extra)));
            }
            if !a.contents[fi].1.is_empty() && fi > 0 { let prevd: BTreeSet<Fact> = dm::least_model(&a.contents[fi - 1].1, &c.rules).difference(&a.contents[fi - 1].1).cloned().collect(); if a.contents[fi].1.iter().any(|f| prevd.contains(f)) { ctx.hit("probe.raw_item_equals_fact_derived_in_previous_firing"); } }
            fi += 1;
        }
        let _ = take_trace_hash();
        // ---- mode B: multi thread under seeded schedules; the flat sequence must be a concatenation of permutations of E_1..E_n
        for (seed, pct) in &c.schedules {
            let res: Arc<Mutex<Option<Result<SingleOut, String>>>> = Arc::new(Mutex::new(None));
            let rows_b: Arc<Mutex<Vec<Row>>> = Arc::new(Mutex::new(vec![]));
            let (r2, c2, rb2) = (res.clone(), c.clone(), rows_b.clone());
            let run = shuttle_run(*seed, *pct, 3_000_000, move || { rb2.lock().unwrap().clear(); let o = single_scenario(&c2, OperationMode::MultiThread, rb2.clone()); *r2.lock().unwrap() = Some(o); });
            ctx.hit("fault.shuttle_schedule_executed");
            if let Err((loc, msg)) = run {
                let m: String = msg.chars().take(300).collect();
                let class = if m.contains("deadlock") { "multi-thread-deadlock" } else if m.contains("exceeded max_steps") || m.contains("max steps") { "multi-thread-no-termination" } else { "multi-thread-unwind" };
                return Some(Violation::new(class, format!("multi-thread mode under schedule (seed {}, pct {}) : {} @ {}", seed, pct, m, loc)));
            }
            let mut b = match res.lock().unwrap().take() { Some(Ok(b)) => b, Some(Err(e)) => return Some(Violation::new("multi-thread-build-differs", format!("multi-thread build failed: {}", e))), None => return Some(Violation::new("multi-thread-no-termination", "scenario did not complete".into())) };
            b.rows = rows_b.lock().unwrap().clone(); // all simulated threads have exited: every queued firing has been processed
            let expect_b = expected_firings(c, &b.contents);
            if b.contents != a.contents { return Some(Violation::new("window-reports-differ-between-modes", "the probe window reported different contents in the two modes".into())); }
            let mut pos = 0usize;
            for (j, want) in expect_b.iter().enumerate() {
                let end = (pos + want.len()).min(b.rows.len());
                let got = b.rows[pos..end].to_vec(); pos = end;
                if sorted(got.clone()) != sorted(want.clone()) { return Some(Violation::new("multi-thread-sequence-differs", format!("{} [RANGE {} STEP {}]: under schedule (seed {}, pct {}) the emitted sequence deviates at firing {}: expected the {} rows {:?}, got {:?}; single-thread emitted {} rows in total, multi-thread {}", OPS[c.op as usize % 3], c.width, c.slide, seed, pct, j, want.len(), sorted(want.clone()).first(), sorted(got).first(), a.rows.len(), b.rows.len()))); }
            }
            if pos != b.rows.len() { return Some(Violation::new("multi-thread-sequence-differs", format!("multi-thread mode emitted {} rows beyond the {} expected ones (schedule seed {})", b.rows.len() - pos, pos, seed))); }
            let (th, inter) = take_trace_hash(); ctx.state(th); if inter { ctx.hit("probe.consumer_rows_interleaved_with_pushes"); }
        }
        ctx.count("firings", a.contents.len() as u64);
        if a.contents.len() >= 2 { ctx.nontrivial(kolibrie_verif_rt::log::fnv(&format!("{:?}{:?}{:?}{}{}", c.events, c.block, c.rules, c.width, c.slide))); }
        if !c.rules.is_empty() { ctx.hit("probe.rules_loaded"); }
        ctx.sim_ns += c.events.iter().map(|e| e.gap as u64).sum::<u64>() * 1_000_000_000;
        None
    }
    fn shrink(&self, c: &SingleCase) -> Vec<SingleCase> {
        let mut out: Vec<SingleCase> = shrink_vec(&c.events).into_iter().filter(|e| !e.is_empty()).map(|e| SingleCase { events: e, ..c.clone() }).collect();
        for s in shrink_vec(&c.schedules) { out.push(SingleCase { schedules: s, ..c.clone() }); }
        for r in shrink_vec(&c.rules) { out.push(SingleCase { rules: r, ..c.clone() }); }
        for b in shrink_vec(&c.block) { if !b.is_empty() { out.push(SingleCase { block: b, ..c.clone() }); } }
        for (i, e) in c.events.iter().enumerate() { if e.gap > 1 { let mut ev = c.events.clone(); ev[i].gap = e.gap / 2; out.push(SingleCase { events: ev, ..c.clone() }); } }
        if c.start > 0 { out.push(SingleCase { start: 0, ..c.clone() }); }
        if c.op % 3 != 0 { out.push(SingleCase { op: 0, ..c.clone() }); }
        out
    }
    fn rule(&self) -> String { "A case is one single-window continuous query (RSTREAM / ISTREAM / DSTREAM, width 1..6, slide 1..4, window block of 1-3 patterns, 0-3 N3 rules incl. chains and rules whose conclusions can also arrive as raw items) over an in-order stream with bursts and jumps, run through the real RSPEngine in single-thread mode and in multi-thread mode under 3 (quick) / 8 (thorough) seeded shuttle schedules (Random and PCT). A probe window with identical parameters yields the reported contents; per firing the expected emission is reference-BGP(block, content + reference closure) through a reference stream operator. Single-thread is compared firing by firing; multi-thread must emit a concatenation of permutations of the same per-firing sets, terminate and not deadlock. Non-trivial = at least 2 firings; distinct = hash of (events, block, rules, width, slide). Besides the probe-window oracle, a firing must be about the newest interval closed at its timestamp ([k-RANGE, k), k = floor(t/STEP)*STEP) whenever that interval holds items and was not the subject of the previous firing; gaps up to the width. Half of the cases call stop() before dropping the engine (its flush firing is part of the expected sequence); a third let simulated wall-clock time pass between items.".into() }
    fn assumptions(&self) -> Vec<String> { vec!["row order inside one firing is hash order and not part of the property: sequences are compared per firing as multisets".into(), "the engine is dropped rather than stopped: stop() flushes an extra, non-window firing".into(), "window content is observed through a second real CSPARQLWindow (C09 checks the window itself)".into()] }
    fn real_vs_stub(&self) -> serde_json::Value { serde_json::json!({"real": ["RSPBuilder / RSPEngine (window processor, worker thread, R2S)", "SimpleR2R (materialize, execute_query)", "CSPARQLWindow / WindowRunner", "Reasoner (semi-naive)", "RSP-QL parser, optimizer, execution engine"], "simulated": ["std thread / Mutex / mpsc in rsp_engine.rs, s2r.rs, window_runner.rs (shuttle through cfg(kolibrie_verif) import switches)", "crossbeam channel (sim-crossbeam)", "rayon (sim-rayon, pool of one)", "event source", "hash keys"], "not_run": ["MQTT / HTTP sources"]}) }
    fn matches_known(&self, _c: &SingleCase, _v: &Violation, _m: &str) -> bool { false }
}

// =====================================================================================================================
// C11
#[derive(Serialize, Deserialize, Clone, Debug)]
pub struct WinSpec { pub width: usize, pub slide: usize, pub block: Vec<Pat> }
#[derive(Serialize, Deserialize, Clone, Debug)]
pub enum Policy { Wait, Steal, Timeout { ms: u64, steal: bool } }
#[derive(Serialize, Deserialize, Clone, Debug)]
pub struct MultiCase { pub hash_seed: u64, pub wins: Vec<WinSpec>, pub static_block: Vec<Pat>, pub static_data: Vec<Fact>, pub policy: Policy, pub start: usize, pub events: Vec<Ev>, pub schedules: Vec<(u64, bool)>, pub shared_vocab: bool,
    /// 0 = plain multi-window engine; 1 / 2 = cross-window (SDS+) coordinator in Incremental / Naive mode, switched on by rules that derive nothing the blocks can see
    #[serde(default)] pub cross_rules: u8,
    /// the static N-Triples are loaded before this event index (0 = before streaming starts)
    #[serde(default)] pub static_after: usize,
    /// how the streams are named: 0 `:s<i>`, 1 `<http://e.org/s<i>>`, 2 `<http://host<i>:9000/obs>` (same text after the last ':'), 3 `<urn:plant<i>:temperature>`
    #[serde(default)] pub stream_naming: u8,
    /// plain engine path only: the R2R operator is given one rule (which can never fire), as applications that reason over window content do
    #[serde(default)] pub r2r_rule: bool }
pub struct C11;
fn stream_decl(c: &MultiCase, i: usize) -> String { match c.stream_naming { 1 => format!("<http://e.org/s{}>", i), 2 => format!("<http://host{}:9000/obs>", i), 3 => format!("<urn:plant{}:temperature>", i), _ => format!(":s{}", i) } }
fn stream_feed(c: &MultiCase, i: usize) -> String { match c.stream_naming { 1 => if i % 2 == 0 { format!("http://e.org/s{}", i) } else { format!("<http://e.org/s{}>", i) }, 2 => format!("http://host{}:9000/obs", i), 3 => format!("urn:plant{}:temperature", i), _ => format!(":s{}", i) } }

struct MultiOut { marks: Vec<usize>, contents: Vec<Vec<(usize, BTreeSet<Fact>)>> }
fn multi_query(c: &MultiCase) -> String {
    let mut q = String::from("REGISTER RSTREAM <http://out/stream> AS SELECT * ");
    for (i, w) in c.wins.iter().enumerate() { q.push_str(&format!("FROM NAMED WINDOW :w{} ON {} [RANGE {} STEP {}] ", i, stream_decl(c, i), w.width, w.slide)); }
    q.push_str("WHERE { ");
    for (i, w) in c.wins.iter().enumerate() { q.push_str(&format!("WINDOW :w{} {{ {} }} ", i, pats_txt(&w.block))); }
    q.push_str(&pats_txt(&c.static_block));
    q.push('}');
    q
}
fn multi_scenario(c: &MultiCase, mode: OperationMode, out: Arc<Mutex<Vec<Row>>>) -> Result<MultiOut, String> {
    kolibrie_verif_rt::clock::install(1_000_000);
    let policy = match &c.policy { Policy::Wait => SyncPolicy::Wait, Policy::Steal => SyncPolicy::Steal, Policy::Timeout { ms, steal } => SyncPolicy::Timeout { duration: std::time::Duration::from_millis(*ms), fallback: if *steal { Fallback::Steal } else { Fallback::Drop } } };
    let never = rule_txt(&dm::Rule { prem: vec![("?s".into(), iri("never"), "?o".into())], conc: vec![("?s".into(), iri("never2"), "?o".into())], ..Default::default() });
    let mut e = if c.cross_rules == 0 { build_engine(&multi_query(c), if c.r2r_rule { &never } else { "" }, mode, Some(policy), out.clone())? } else {
        // one rule that can never fire and one that fires on stream 0's items but derives a predicate no block mentions
        let p0 = c.events.iter().find(|e| e.stream % c.wins.len() == 0).map(|e| e.p.clone()).unwrap_or_else(|| iri("p0"));
        let rules = format!("{{ ?s <:w0{}> ?v .\n  ?s <:w1{}> ?r }}\n=> {{ ?s <:w0{}> ?r }}\n{{ ?s <:w0{}> ?v }}\n=> {{ ?s <:w0{}> ?v }}\n", iri("never1"), iri("never2"), iri("flag"), p0, iri("seen"));
        let out2 = out.clone();
        let consumer = ResultConsumer { function: Arc::new(move |r: Row| { trace(b'R'); out2.lock().unwrap().push(r); }) };
        let r2r = Box::new(SimpleR2R::with_execution_mode(QueryExecutionMode::Volcano));
        RSPBuilder::new().add_rsp_ql_query(&multi_query(c)).add_cross_window_rules(&rules).set_cross_window_reasoning_mode(if c.cross_rules == 1 { CrossWindowReasoningMode::Incremental } else { CrossWindowReasoningMode::Naive })
            .add_consumer(consumer).add_r2r(r2r).set_operation_mode(mode).set_sync_policy(policy).build().map_err(|e| e.to_string())?
    };
    let static_nt: String = c.static_data.iter().map(|f| format!("<{}> <{}> <{}> .\n", f.0, f.1, f.2)).collect();
    if !c.static_data.is_empty() && c.static_after == 0 { e.add_static_ntriples(&static_nt); }
    let n = c.wins.len();
    let sinks: Vec<Arc<Mutex<Vec<Vec<Triple>>>>> = (0..n).map(|_| Arc::new(Mutex::new(vec![]))).collect();
    let mut probes: Vec<CSPARQLWindow<Triple>> = c.wins.iter().zip(sinks.iter()).map(|(w, s)| probe_window(w.width, w.slide, s.clone())).collect();
    let mut names: HashMap<Triple, Fact> = HashMap::new();
    let mut contents: Vec<Vec<(usize, BTreeSet<Fact>)>> = vec![vec![]; n];
    let mut ts = c.start; let mut marks = vec![];
    for (i, ev) in c.events.iter().enumerate() {
        if i > 0 { ts += ev.gap; }
        if !c.static_data.is_empty() && c.static_after > 0 && c.static_after == i { e.add_static_ntriples(&static_nt); }
        if ev.advance_ms > 0 { kolibrie_verif_rt::clock::advance(ev.advance_ms * 1_000_000); kolibrie_verif_rt::thread::sleep(std::time::Duration::ZERO); }
        let w = ev.stream % n;
        let f: Fact = (ev.s.clone(), ev.p.clone(), ev.o.clone());
        let triples = e.parse_data(&format!("<{}> <{}> <{}> .", f.0, f.1, f.2));
        if triples.len() != 1 { return Err("parse_data".into()); }
        let t = triples[0].clone(); names.insert(t.clone(), f);
        let cb = sinks[w].lock().unwrap().len();
        probes[w].add_to_window(t.clone(), ts);
        trace(b'P');
        e.add_to_stream(&stream_feed(c, w), t, ts);
        let cg = sinks[w].lock().unwrap();
        if cg.len() > cb { contents[w].push((i, cg.last().unwrap().iter().map(|t| names[t].clone()).collect())); }
        marks.push(out.lock().unwrap().len());
    }
    // let pending coordinator deadlines expire, then close everything
    kolibrie_verif_rt::clock::advance(3_600_000_000_000); kolibrie_verif_rt::thread::sleep(std::time::Duration::ZERO);
    drop(e);
    kolibrie_verif_rt::clock::uninstall();
    Ok(MultiOut { marks, contents })
}
fn project(r: &Row, vars: &BTreeSet<String>) -> Row { let mut v: Row = r.iter().filter(|(k, _)| vars.contains(k)).cloned().collect(); v.sort(); v }

/// soundness of one emitted row against what each window itself reported up to `upto` (event index, inclusive)
fn judge_row(c: &MultiCase, r: &Row, contents: &[Vec<(usize, BTreeSet<Fact>)>], upto: usize) -> Option<Violation> {
    // static data loaded late: a row emitted (single-thread: during event `upto`) before the load sees an empty static store;
    // rows of a multi-thread run arrive asynchronously and are judged against the data loaded by the end of the run
    let loaded = c.static_after == 0 || upto >= c.static_after.min(c.events.len().saturating_sub(1)) && c.static_after < c.events.len();
    let static_set: BTreeSet<Fact> = if loaded { c.static_data.iter().cloned().collect() } else { BTreeSet::new() };
    for (wi, w) in c.wins.iter().enumerate() {
        let vars = block_vars(&w.block);
        let pr = project(r, &vars);
        if pr.len() != vars.len() { return Some(Violation::new("row-lacks-window-variables", format!("row {:?} does not bind all variables {:?} of window {}", r, vars, wi))); }
        // cross-window (SDS+) mode keeps a window's items alive by expiry (event time + width, evaluated at the time the content
        // last changed), so a block may legitimately see items of two consecutive reports of its own window together: there
        // the row must be an answer over what this window reported so far taken together (isolation from the other windows and
        // from the static data is still demanded in full)
        let cumulative: BTreeSet<Fact>; let own: Vec<&BTreeSet<Fact>> = if c.cross_rules > 0 { cumulative = contents[wi].iter().filter(|(i, _)| *i <= upto).flat_map(|(_, k)| k.iter().cloned()).collect(); vec![&cumulative] } else { contents[wi].iter().filter(|(i, _)| *i <= upto).map(|(_, k)| k).collect() };
        if own.iter().any(|k| rows_of(&w.block, k).iter().any(|x| project(x, &vars) == pr)) { continue; }
        // not an answer over anything this window reported: what does explain it?
        let mut foreign: BTreeSet<Fact> = BTreeSet::new(); for (wj, cs) in contents.iter().enumerate() { if wj != wi { for (_, k) in cs { foreign.extend(k.iter().cloned()); } } }
        let explained_with = |extra: &BTreeSet<Fact>| own.iter().any(|k| { let u: BTreeSet<Fact> = k.union(extra).cloned().collect(); rows_of(&w.block, &u).iter().any(|x| project(x, &vars) == pr) }) || rows_of(&w.block, extra).iter().any(|x| project(x, &vars) == pr);
        let class = if explained_with(&foreign) { "foreign-window-items" } else if explained_with(&static_set) { "static-leak" } else { "unexplained-row" };
        return Some(Violation::new(class, format!("emitted row {:?}: its part for window {} (block {{ {} }}) is not an answer over any content that window reported (it reported {} contents so far){}", r, wi, pats_txt(&w.block), own.len(), match class { "foreign-window-items" => "; it IS an answer once items reported by the other windows are added", "static-leak" => "; it IS an answer once the static triples are added", _ => "" })));
    }
    if !c.static_block.is_empty() { let vars = block_vars(&c.static_block); let pr = project(r, &vars); if !rows_of(&c.static_block, &static_set).iter().any(|x| project(x, &vars) == pr) { return Some(Violation::new("static-part-not-over-static-data", format!("emitted row {:?}: its static part {:?} is not an answer of {{ {} }} over the static data", r, pr, pats_txt(&c.static_block)))); } }
    None
}

impl Prop for C11 {
    type Case = MultiCase;
    fn id(&self) -> &'static str { "C11" }
    fn expected_counters(&self) -> Vec<&'static str> { vec!["fault.shuttle_schedule_executed", "fault.coordinator_timeout_fired", "probe.consumer_rows_interleaved_with_pushes", "probe.static_block_present", "probe.static_block_over_empty_static_store", "probe.static_data_loaded_mid_run", "probe.cross_window_coordinator_path", "probe.cross_window_path_emitted_rows", "probe.stream_iris_share_their_last_segment", "probe.stream_iris_share_their_last_segment_and_rows_emitted", "probe.r2r_operator_has_a_rule_and_static_data_is_loaded"] }
    fn budget(&self, tier: Tier) -> Budget { match tier { Tier::Quick => Budget { runs: 4000, wall_s: 60, recheck: 20 }, Tier::Thorough => Budget { runs: 250_000, wall_s: 1000, recheck: 60 } } }
    fn hash_seed(&self, c: &MultiCase) -> u64 { c.hash_seed }
    fn gen(&self, seed: u64, _i: u64, tier: Tier) -> MultiCase {
        let mut r = Rng::sub(seed, "workload"); let mut cfg = Rng::sub(seed, "swarm"); let mut sr = Rng::sub(seed, "schedules");
        let n = 2 + cfg.usize(2);
        let shared_vocab = cfg.chance(1, 2);
        let node = |r: &mut Rng| iri(&format!("n{}", r.usize(3)));
        let pred = |r: &mut Rng, w: usize| if shared_vocab { iri(["p", "q"][r.usize(2)]) } else { iri(&format!("p{}", w)) };
        let join_var = cfg.chance(1, 2);
        let two_shared = join_var && cfg.chance(1, 2); // the blocks share two variables: rows can agree on one and disagree on the other
        let wins: Vec<WinSpec> = (0..n).map(|w| { let k = 1 + r.usize(2); let block = (0..k).map(|i| (if join_var && i == 0 { "?j".to_string() } else if r.chance(1, 6) { node(&mut r) } else { format!("?a{}{}", w, i) }, pred(&mut r, w), if two_shared && i == 0 { "?k".to_string() } else if r.chance(1, 6) { node(&mut r) } else { format!("?a{}{}", w, i + 1) })).collect(); WinSpec { width: 1 + r.usize(6), slide: 1 + r.usize(4), block } }).collect();
        let with_static = cfg.chance(1, 3);
        let static_block: Vec<Pat> = if with_static { vec![(if join_var { "?j".into() } else { "?a00".into() }, if shared_vocab && r.chance(1, 2) { iri("p") } else { iri("loc") }, if two_shared && r.chance(1, 2) { "?k".into() } else { "?room".into() })] } else { vec![] };
        // the static block may face an empty static store (never loaded), or one that is loaded in the middle of the run
        let static_data: Vec<Fact> = if with_static && !cfg.chance(1, 5) { (0..(1 + r.usize(4))).map(|_| (node(&mut r), static_block[0].1.clone(), node(&mut r))).collect() } else { vec![] };
        let static_late = with_static && cfg.chance(1, 4);
        let cross_rules = if cfg.chance(1, 3) { 1 + cfg.below(2) as u8 } else { 0 };
        let policy = match cfg.below(4) { 0 => Policy::Wait, 1 => Policy::Steal, k => Policy::Timeout { ms: 10 + r.below(100), steal: k == 2 } };
        let ne = if cfg.chance(1, 2) { 6 + r.usize(20) } else { 14 + r.usize(30) };
        let events = (0..ne).map(|_| { let w = r.usize(n); Ev { gap: r.usize(3), stream: w, s: node(&mut r), p: pred(&mut r, w), o: node(&mut r), advance_ms: if r.chance(1, 4) { r.below(150) } else { 0 } } }).collect();
        let ns = if tier == Tier::Quick { 3 } else { 8 };
        MultiCase { hash_seed: Rng::sub(seed, "hash").next(), wins, static_block, static_data, policy, start: r.usize(3), events, schedules: (0..ns).map(|i| (sr.next(), i % 2 == 1)).collect(), shared_vocab, cross_rules, static_after: if static_late { 1 + r.usize(ne) } else { 0 }, stream_naming: if cfg.chance(1, 2) { 0 } else { 1 + cfg.below(3) as u8 }, r2r_rule: cfg.chance(1, 3) }
    }
    fn exec(&self, c: &MultiCase, ctx: &mut Ctx) -> Option<Violation> {
        if c.wins.len() < 2 || c.events.is_empty() || c.wins.iter().any(|w| w.block.is_empty() || w.width == 0 || w.slide == 0) { return None; }
        // ---- single-thread mode: rows are attributed to the event during which they were emitted
        let out_a: Arc<Mutex<Vec<Row>>> = Arc::new(Mutex::new(vec![]));
        let oa = out_a.clone();
        let a = match guard(|| multi_scenario(c, OperationMode::SingleThread, oa)) { Ok(Ok(a)) => a, Ok(Err(e)) => { ctx.hit("engine_build_rejected_skipped"); ev!(ctx.log, "build: {}", e); return None; } Err((loc, msg)) => return Some(Violation::new("unwind", format!("single-thread multi-window engine unwound at {}: {}", loc, msg.chars().take(200).collect::<String>()))) };
        let rows_a = out_a.lock().unwrap().clone();
        ev!(ctx.log, "single-thread: windows={} events={} reports={:?} rows={}", c.wins.len(), c.events.len(), a.contents.iter().map(|x| x.len()).collect::<Vec<_>>(), rows_a.len());
        // a row of the listed class `foreign-window-items` (shared vocabulary) is remembered and checking goes on, so that
        // a different defect in the same run is still reported first
        let mut deferred: Option<Violation> = None;
        let mut start = 0usize;
        for (i, mark) in a.marks.iter().enumerate() { for r in &rows_a[start..*mark] { if let Some(mut v) = judge_row(c, r, &a.contents, i) { v.detail = format!("single-thread, policy {:?}, event {}: {}", c.policy, i, v.detail); if v.class == "foreign-window-items" && c.shared_vocab && c.cross_rules == 0 { deferred.get_or_insert(v); } else { return Some(v); } } } start = *mark; }
        for r in &rows_a[start..] { if let Some(mut v) = judge_row(c, r, &a.contents, usize::MAX) { v.detail = format!("single-thread, at shutdown: {}", v.detail); if v.class == "foreign-window-items" && c.shared_vocab && c.cross_rules == 0 { deferred.get_or_insert(v); } else { return Some(v); } } }
        ctx.count("rows_emitted_single_thread", rows_a.len() as u64);
        let _ = take_trace_hash();
        // ---- multi-thread mode (worker per window + coordinator) under seeded schedules and the simulated clock
        for (seed, pct) in &c.schedules {
            let res: Arc<Mutex<Option<Result<MultiOut, String>>>> = Arc::new(Mutex::new(None));
            let rows_b: Arc<Mutex<Vec<Row>>> = Arc::new(Mutex::new(vec![]));
            let (r2, c2, rb2) = (res.clone(), c.clone(), rows_b.clone());
            let run = shuttle_run(*seed, *pct, 5_000_000, move || { rb2.lock().unwrap().clear(); let o = multi_scenario(&c2, OperationMode::MultiThread, rb2.clone()); *r2.lock().unwrap() = Some(o); });
            kolibrie_verif_rt::clock::uninstall();
            ctx.hit("fault.shuttle_schedule_executed");
            ctx.count("fault.coordinator_timeout_fired", kolibrie_verif_rt::clock::take_timeouts());
            if let Err((loc, msg)) = run {
                let m: String = msg.chars().take(300).collect();
                let class = if m.contains("deadlock") { "multi-thread-deadlock" } else if m.contains("max_steps") || m.contains("max steps") { "multi-thread-no-termination" } else { "multi-thread-unwind" };
                return Some(Violation::new(class, format!("multi-window engine, policy {:?}, schedule (seed {}, pct {}): {} @ {}", c.policy, seed, pct, m, loc)));
            }
            let b = match res.lock().unwrap().take() { Some(Ok(b)) => b, _ => return Some(Violation::new("multi-thread-no-termination", "scenario did not complete".into())) };
            let rows = rows_b.lock().unwrap().clone();
            for r in &rows { if let Some(mut v) = judge_row(c, r, &b.contents, usize::MAX) { v.detail = format!("multi-thread, policy {:?}, schedule (seed {}, pct {}): {}", c.policy, seed, pct, v.detail); if v.class == "foreign-window-items" && c.shared_vocab && c.cross_rules == 0 { deferred.get_or_insert(v); } else { return Some(v); } } }
            ctx.count("rows_emitted_multi_thread", rows.len() as u64);
            if matches!(c.policy, Policy::Timeout { .. }) && c.events.iter().any(|e| e.advance_ms > 0) { ctx.hit("fault.clock_advanced_past_coordinator_deadline_candidates"); }
            let (th, inter) = take_trace_hash(); ctx.state(th); if inter { ctx.hit("probe.consumer_rows_interleaved_with_pushes"); }
        }
        if !rows_a.is_empty() { ctx.nontrivial(kolibrie_verif_rt::log::fnv(&format!("{:?}{:?}", c.events, c.wins))); }
        if deferred.is_some() { return deferred; }
        if c.shared_vocab { ctx.hit("class.windows_share_vocabulary"); } else { ctx.hit("class.disjoint_vocabularies"); }
        if !c.static_block.is_empty() { ctx.hit("probe.static_block_present"); if c.static_data.is_empty() { ctx.hit("probe.static_block_over_empty_static_store"); } if c.static_after > 0 && !c.static_data.is_empty() { ctx.hit("probe.static_data_loaded_mid_run"); } }
        if c.stream_naming >= 2 { ctx.hit("probe.stream_iris_share_their_last_segment"); if !rows_a.is_empty() { ctx.hit("probe.stream_iris_share_their_last_segment_and_rows_emitted"); } }
        if c.r2r_rule && c.cross_rules == 0 && !c.static_data.is_empty() { ctx.hit("probe.r2r_operator_has_a_rule_and_static_data_is_loaded"); }
        if c.cross_rules > 0 { ctx.hit("probe.cross_window_coordinator_path"); if !rows_a.is_empty() { ctx.hit("probe.cross_window_path_emitted_rows"); } }
        None
    }
    fn shrink(&self, c: &MultiCase) -> Vec<MultiCase> {
        let mut out: Vec<MultiCase> = shrink_vec(&c.events).into_iter().filter(|e| !e.is_empty()).map(|e| MultiCase { events: e, ..c.clone() }).collect();
        for s in shrink_vec(&c.schedules) { out.push(MultiCase { schedules: s, ..c.clone() }); }
        if c.wins.len() > 2 { let mut w = c.wins.clone(); w.pop(); out.push(MultiCase { wins: w, ..c.clone() }); }
        for (i, w) in c.wins.iter().enumerate() { if w.block.len() > 1 { for b in shrink_vec(&w.block) { if !b.is_empty() { let mut ws = c.wins.clone(); ws[i].block = b; out.push(MultiCase { wins: ws, ..c.clone() }); } } } }
        if !c.static_block.is_empty() { out.push(MultiCase { static_block: vec![], static_data: vec![], ..c.clone() }); }
        for s in shrink_vec(&c.static_data) { if !s.is_empty() { out.push(MultiCase { static_data: s, ..c.clone() }); } }
        if !matches!(c.policy, Policy::Wait) { out.push(MultiCase { policy: Policy::Wait, ..c.clone() }); }
        if c.cross_rules > 0 { out.push(MultiCase { cross_rules: 0, ..c.clone() }); }
        if c.stream_naming > 0 { out.push(MultiCase { stream_naming: 0, ..c.clone() }); }
        if c.r2r_rule { out.push(MultiCase { r2r_rule: false, ..c.clone() }); }
        if c.static_after > 0 { out.push(MultiCase { static_after: 0, ..c.clone() }); }
        for (i, e) in c.events.iter().enumerate() { if e.advance_ms > 0 { let mut ev = c.events.clone(); ev[i].advance_ms = 0; out.push(MultiCase { events: ev, ..c.clone() }); } if e.gap > 0 { let mut ev = c.events.clone(); ev[i].gap = 0; out.push(MultiCase { events: ev, ..c.clone() }); } }
        out
    }
    fn rule(&self) -> String { "A case is one continuous query over 2-3 windows on 2-3 streams (independent width/slide, blocks that share vocabulary across streams in half of the cases and use disjoint vocabularies in the other half, optional join variable, optional static block + static N-Triples) under Wait / Steal / Timeout{Steal|Drop}, run in single-thread mode and in multi-thread mode (worker per window + coordinator) under seeded shuttle schedules with the simulated clock advanced between pushes so coordinator time-outs fire before, between and after the windows of a cycle. One probe window per engine window records what each window reported. Oracle (soundness only): every emitted row, projected onto a window block's variables, is an answer of that block over some content that window itself reported; the static part is an answer over the static data; all threads terminate. Non-trivial = at least one row emitted; distinct = hash of (events, windows). A third of the cases run the cross-window (SDS+) coordinator (Incremental / Naive) with rules whose conclusions no block can see - there a block part must be an answer over what its own window reported so far taken together; static data may be empty or loaded in mid-run; half of the cases name the streams with full http / host:port / URN IRIs that share their last segment. A third of the plain-path cases give the R2R operator a rule that can never fire.".into() }
    fn assumptions(&self) -> Vec<String> { vec!["soundness only: no completeness, timing or 'which cycle' requirement, so no schedule can make the oracle alarm spuriously".into(), "in multi-thread mode a row may be explained by any content the window reported during the run (rows arrive asynchronously)".into(), "R2R rules are not loaded in C11; in cross-window mode only rules whose conclusions no block can see are loaded, and there a block part is judged against everything its own window reported so far (expiry-based liveness of the SDS+ path), not against a single report".into()] }
    fn real_vs_stub(&self) -> serde_json::Value { serde_json::json!({"real": ["RSPEngine (window processors, coordinator, join_window_results, natural_join, emit_results, static store)", "SimpleR2R", "CSPARQLWindow"], "simulated": ["std thread / Mutex / mpsc (shuttle)", "crossbeam channel incl. recv_timeout on the simulated clock", "Instant (simulated clock)", "event source", "hash keys"], "not_run": ["cross-window SDS+ reasoning path (C12 drives incremental_sds_plus directly)"]}) }
    fn matches_known(&self, c: &MultiCase, v: &Violation, m: &str) -> bool { match m { "foreign-window-items-shared-vocabulary" => v.class == "foreign-window-items" && c.shared_vocab && c.cross_rules == 0, _ => false } }
}

// =====================================================================================================================
// C12 (engine clause): the real RSPEngine cross-window path (build_cross_window_sds + emit_cross_window_results) in
// Incremental mode must emit what the same engine emits in Naive (from-scratch) mode, event by event.
use crate::dlsim::{SdsCase, C12 as C12Sds};
use kolibrie::rsp_engine::CrossWindowReasoningMode;
#[derive(Serialize, Deserialize, Clone, Debug)]
pub struct XwCase { pub hash_seed: u64, pub wins: Vec<WinSpec>, pub rules: Vec<dm::Rule>, pub start: usize, pub events: Vec<Ev> }
#[derive(Serialize, Deserialize, Clone, Debug)]
pub enum C12Case { Sds(SdsCase), Engine(XwCase) }
pub struct C12;
const ENGINE_CLAUSE_ONE_IN: u64 = 0;

fn xw_rule_txt(r: &dm::Rule) -> String { let body = |ps: &[Pat]| ps.iter().map(|p| format!("{} <{}> {}", term_txt(&p.0), p.1, term_txt(&p.2))).collect::<Vec<_>>().join(" .\n  "); format!("{{ {} }}\n=> {{ {} }}\n", body(&r.prem), body(&r.conc)) }
fn xw_scenario(c: &XwCase, mode: CrossWindowReasoningMode) -> Result<(Vec<Row>, Vec<usize>), String> {
    let out: Arc<Mutex<Vec<Row>>> = Arc::new(Mutex::new(vec![]));
    let o2 = out.clone();
    let consumer = ResultConsumer { function: Arc::new(move |r: Row| { o2.lock().unwrap().push(r); }) };
    let r2r = Box::new(SimpleR2R::with_execution_mode(QueryExecutionMode::Volcano));
    let mut q = String::from("REGISTER RSTREAM <http://out/stream> AS SELECT * ");
    for (i, w) in c.wins.iter().enumerate() { q.push_str(&format!("FROM NAMED WINDOW :w{} ON :s{} [RANGE {} STEP {}] ", i, i, w.width, w.slide)); }
    q.push_str("WHERE { "); for (i, w) in c.wins.iter().enumerate() { q.push_str(&format!("WINDOW :w{} {{ {} }} ", i, pats_txt(&w.block))); } q.push('}');
    let rules_txt: String = c.rules.iter().map(xw_rule_txt).collect();
    let mut e: Engine = RSPBuilder::new().add_rsp_ql_query(&q).add_consumer(consumer).add_r2r(r2r).set_operation_mode(OperationMode::SingleThread).add_cross_window_rules(&rules_txt).set_cross_window_reasoning_mode(mode).build().map_err(|e| e.to_string())?;
    let n = c.wins.len(); let mut ts = c.start; let mut marks = vec![];
    for (i, ev) in c.events.iter().enumerate() {
        if i > 0 { ts += ev.gap; }
        let triples = e.parse_data(&format!("<{}> <{}> <{}> .", ev.s, ev.p, ev.o));
        if triples.len() != 1 { return Err("parse_data".into()); }
        e.add_to_stream(&format!(":s{}", ev.stream % n), triples[0].clone(), ts);
        marks.push(out.lock().unwrap().len());
    }
    e.process_single_thread_window_results();
    marks.push(out.lock().unwrap().len());
    drop(e);
    let rows = out.lock().unwrap().clone();
    Ok((rows, marks))
}
fn gen_xw(seed: u64) -> XwCase {
    let mut r = Rng::sub(seed, "xw");
    let node = |r: &mut Rng| iri(&format!("n{}", r.usize(3)));
    let n = 2;
    let wins: Vec<WinSpec> = (0..n).map(|w| WinSpec { width: 2 + r.usize(8), slide: 1 + r.usize(4), block: vec![(format!("?a{}", w), iri(if r.chance(1, 2) { "r" } else { ["p", "q"][w] }), if w == 1 && r.chance(1, 2) { "?a0".to_string() } else { format!("?b{}", w) })] }).collect();
    // rules over window-annotated predicates (":w<i>" + predicate IRI); conclusions land in a window component so the blocks can see them
    let ann = |w: usize, p: &str| format!(":w{}{}", w, iri(p));
    let mut rules = vec![dm::Rule { prem: vec![("?x".into(), ann(0, "p"), "?y".into()), ("?y".into(), ann(1, "q"), "?z".into())], conc: vec![("?x".into(), ann(r.usize(2), "r"), "?z".into())], ..Default::default() }];
    if r.chance(1, 2) { rules.push(dm::Rule { prem: vec![("?x".into(), ann(0, "r"), "?y".into()), ("?y".into(), ann(0, "p"), "?z".into())], conc: vec![("?x".into(), ann(0, "r"), "?z".into())], ..Default::default() }); }
    if r.chance(1, 2) { rules.push(dm::Rule { prem: vec![("?x".into(), ann(1, "q"), "?y".into())], conc: vec![("?y".into(), ann(1, "r"), "?x".into())], ..Default::default() }); }
    let ne = 6 + r.usize(24);
    let events = (0..ne).map(|_| { let w = r.usize(n); Ev { gap: if r.chance(1, 8) { 5 + r.usize(20) } else { r.usize(3) }, stream: w, s: node(&mut r), p: iri(["p", "q"][w]), o: node(&mut r), advance_ms: 0 } }).collect();
    XwCase { hash_seed: Rng::sub(seed, "hash").next(), wins, rules, start: r.usize(3), events }
}
fn exec_xw(c: &XwCase, ctx: &mut Ctx) -> Option<Violation> {
    if c.wins.len() < 2 || c.events.is_empty() { return None; }
    let inc = match guard(|| xw_scenario(c, CrossWindowReasoningMode::Incremental)) { Ok(Ok(x)) => x, Ok(Err(e)) => { ctx.hit("engine_build_rejected_skipped"); ev!(ctx.log, "build: {}", e); return None; } Err((loc, msg)) => return Some(Violation::new("unwind", format!("cross-window engine (incremental) unwound at {}: {}", loc, msg.chars().take(200).collect::<String>()))) };
    let nai = match guard(|| xw_scenario(c, CrossWindowReasoningMode::Naive)) { Ok(Ok(x)) => x, Ok(Err(e)) => return Some(Violation::new("engine-modes-build-differently", e)), Err((loc, msg)) => return Some(Violation::new("unwind", format!("cross-window engine (naive) unwound at {}: {}", loc, msg.chars().take(200).collect::<String>()))) };
    ev!(ctx.log, "engine: events={} rows incremental={} naive={}", c.events.len(), inc.0.len(), nai.0.len());
    let (mut a0, mut b0) = (0usize, 0usize);
    for (i, (ma, mb)) in inc.1.iter().zip(nai.1.iter()).enumerate() {
        let (ra, rb) = (sorted(inc.0[a0..*ma].to_vec()), sorted(nai.0[b0..*mb].to_vec())); a0 = *ma; b0 = *mb;
        ev!(ctx.log, "event {}: incremental {:?} | naive {:?}", i, ra, rb);
        if ra != rb { return Some(Violation::new("engine-incremental-vs-naive-differ", format!("real RSPEngine, cross-window rules {:?}: at event {} the incremental engine emitted {} rows, the from-scratch engine {}; only-incremental {:?}; only-naive {:?}", c.rules.iter().map(xw_rule_txt).collect::<String>(), i, ra.len(), rb.len(), ra.iter().find(|x| !rb.contains(x)), rb.iter().find(|x| !ra.contains(x))))); }
    }
    if !inc.0.is_empty() { ctx.hit("probe.engine_cross_window_rows_emitted"); ctx.nontrivial(kolibrie_verif_rt::log::fnv(&format!("{:?}{:?}", c.events, c.rules))); }
    ctx.hit("class.real_engine_incremental_vs_naive");
    None
}
impl Prop for C12 {
    type Case = C12Case;
    fn id(&self) -> &'static str { "C12" }
    fn expected_counters(&self) -> Vec<&'static str> { C12Sds.expected_counters() }
    fn budget(&self, tier: Tier) -> Budget { C12Sds.budget(tier) }
    fn hash_seed(&self, c: &C12Case) -> u64 { match c { C12Case::Sds(s) => s.hash_seed, C12Case::Engine(e) => e.hash_seed } }
    // The engine clause is NOT generated (ENGINE_CLAUSE_ONE_IN = 0): it turned out to demand more than C12 states. The real engine evaluates the
    // SDS at the time its window contents last changed, which can precede the window's trigger time, so a fact can leave a window's listing
    // while `event_time + alpha` is still in the future: such histories are outside C12's quantifier ("facts stay listed until they expire"),
    // and there incremental and from-scratch reasoning legitimately differ (DESIGN.md 14.1). The code is kept for replaying that observation.
    fn gen(&self, seed: u64, i: u64, tier: Tier) -> C12Case { if ENGINE_CLAUSE_ONE_IN > 0 && Rng::sub(seed, "kind").chance(1, ENGINE_CLAUSE_ONE_IN) { C12Case::Engine(gen_xw(seed)) } else { C12Case::Sds(C12Sds.gen(seed, i, tier)) } }
    fn exec(&self, c: &C12Case, ctx: &mut Ctx) -> Option<Violation> { match c { C12Case::Sds(s) => C12Sds.exec(s, ctx), C12Case::Engine(e) => exec_xw(e, ctx) } }
    fn shrink(&self, c: &C12Case) -> Vec<C12Case> {
        match c {
            C12Case::Sds(s) => C12Sds.shrink(s).into_iter().map(C12Case::Sds).collect(),
            C12Case::Engine(e) => { let mut out: Vec<C12Case> = shrink_vec(&e.events).into_iter().filter(|x| !x.is_empty()).map(|x| C12Case::Engine(XwCase { events: x, ..e.clone() })).collect(); for r in shrink_vec(&e.rules) { if !r.is_empty() { out.push(C12Case::Engine(XwCase { rules: r, ..e.clone() })); } } for (i, ev) in e.events.iter().enumerate() { if ev.gap > 0 { let mut evs = e.events.clone(); evs[i].gap = ev.gap / 2; out.push(C12Case::Engine(XwCase { events: evs, ..e.clone() })); } } out }
        }
    }
    fn rule(&self) -> String { C12Sds.rule() }
    fn assumptions(&self) -> Vec<String> { let mut a = C12Sds.assumptions(); a.push("an engine-level clause (incremental vs naive RSPEngine) was built and withdrawn: the engine's own histories are not window-consistent in the property's sense, so the clause demanded more than the statement".into()); a }
    fn real_vs_stub(&self) -> serde_json::Value { serde_json::json!({"real": ["incremental_sds_plus", "naive_sds_plus", "translate_sds_to_datalog", "ExpirationProvenance semi-naive", ], "simulated": ["stream arrival times and evaluation clock", "window contents (simulated windows; the real CSPARQLWindow is exercised by C09-C11)", "rayon (sim-rayon)", "hash keys"], "not_run": ["RSPEngine cross-window wiring (build_cross_window_sds, emit_cross_window_results): its evaluation times make histories that are outside the property's quantifier"]}) }
}
