//! C15 — term identifiers are a stable bijection, also across database union (DESIGN.md 6.12, weak fit).
use kolibrie::sparql_database::SparqlDatabase;
use kolibrie_verif_rt::ev;
use kolibrie_verif_rt::harness::*;
use kolibrie_verif_rt::rng::Rng;
use serde::{Deserialize, Serialize};
use shared::dataset_index::{GraphId, Quad};
use shared::quoted_triple_store::is_quoted_triple_id;
use shared::triple::Triple;
use std::collections::{BTreeMap, BTreeSet};

#[derive(Serialize, Deserialize, Clone, Debug, PartialEq, Eq, PartialOrd, Ord)]
pub enum T { Iri(u32), Lit(u32), Esc(u32), Quoted(Box<T>, Box<T>, Box<T>) }
impl T {
    /// text as a client writes it
    pub fn text(&self) -> String { match self { T::Iri(n) => format!("<http://e/n{}>", n), T::Lit(n) => format!("\"v{}\"", n), T::Esc(n) => format!("\"a\\\"b\\\\c{}\\n\"", n), T::Quoted(s, p, o) => format!("<< {} {} {} >>", s.text(), p.text(), o.text()) } }
    /// lexical form as stored / decoded (IRI without brackets, literal by decoded value, quoted structurally)
    pub fn canon(&self) -> String { match self { T::Iri(n) => format!("http://e/n{}", n), T::Lit(n) => format!("v{}", n), T::Esc(n) => format!("a\"b\\c{}\n", n), T::Quoted(s, p, o) => format!("<< {} {} {} >>", s.canon(), p.canon(), o.canon()) } }
}
#[derive(Serialize, Deserialize, Clone, Debug)]
pub enum DOp { Encode(T), DictEncode(String), DecodeInvalid(u32), AddQuad(T, T, T, Option<u32>), CreateGraph(u32), Seed(T, T, u32), Recheck }
#[derive(Serialize, Deserialize, Clone, Debug)]
pub struct DictCase { pub hash_seed: u64, pub pad_b: u32, pub a: Vec<DOp>, pub b: Vec<DOp>, #[serde(default)] pub exhaust: Option<u32> }
pub struct C15;

type LQ = (String, String, String, Option<String>);
struct Lex { quads: BTreeSet<LQ>, graphs: BTreeSet<String>, seeds: BTreeMap<(String, String, String), u64> }
fn lexical(db: &SparqlDatabase) -> Result<Lex, String> {
    let d = |id: u32| db.decode_any(id).ok_or_else(|| format!("id {} does not decode", id));
    let mut quads = BTreeSet::new();
    for q in db.dataset_index.all_quads() { quads.insert((d(q.subject)?, d(q.predicate)?, d(q.object)?, match q.graph { GraphId::Default => None, GraphId::Named(g) => Some(d(g)?) })); }
    let mut graphs = BTreeSet::new();
    for g in db.dataset_index.named_graphs() { if let GraphId::Named(n) = g { graphs.insert(d(n)?); } }
    let mut seeds = BTreeMap::new();
    for (t, p) in &db.probability_seeds { seeds.insert((d(t.subject)?, d(t.predicate)?, d(t.object)?), p.to_bits()); }
    Ok(Lex { quads, graphs, seeds })
}

fn gen_term(r: &mut Rng, depth: u32) -> T {
    match r.below(8) { 0 | 1 if depth < 2 => { let s = gen_term(r, depth + 1); // the store allows a quoted triple in every component position, the predicate included
            let p = if depth == 0 && r.chance(1, 6) { T::Quoted(Box::new(T::Iri(r.below(8) as u32)), Box::new(T::Iri(100 + r.below(2) as u32)), Box::new(gen_term(r, 2))) } else { T::Iri(100 + r.below(2) as u32) };
            T::Quoted(Box::new(s), Box::new(p), Box::new(gen_term(r, depth + 1))) } 2 => T::Lit(r.below(5) as u32), 3 if r.chance(1, 2) => T::Esc(r.below(3) as u32), _ => T::Iri(r.below(8) as u32) }
}
fn gen_ops(r: &mut Rng) -> Vec<DOp> {
    let n = 5 + r.usize(45);
    (0..n).map(|_| match r.below(12) {
        0..=3 => DOp::Encode(gen_term(r, 0)),
        4 => DOp::DictEncode(format!("raw{}", r.below(6))),
        5 => DOp::DecodeInvalid(if r.chance(1, 2) { 1_000_000 + r.below(100) as u32 } else { 0x8000_0000 + 500_000 + r.below(100) as u32 }),
        6..=8 => DOp::AddQuad(gen_term(r, 0), T::Iri(100 + r.below(3) as u32), gen_term(r, 0), if r.chance(1, 3) { Some(r.below(3) as u32) } else { None }),
        9 => DOp::CreateGraph(r.below(4) as u32),
        10 => DOp::Seed(gen_term(r, 0), gen_term(r, 0), r.below(100) as u32),
        _ => DOp::Recheck,
    }).collect()
}

/// grow one database by a history, checking the bijection invariants after every step
fn grow(name: &str, db: &mut SparqlDatabase, ops: &[DOp], ctx: &mut Ctx) -> Result<Vec<T>, Violation> {
    let mut quoted_terms: Vec<T> = vec![];
    let mut issued: BTreeMap<String, u32> = BTreeMap::new();       // canonical lexical form -> id
    let mut by_id: BTreeMap<u32, String> = BTreeMap::new();
    // whatever the database already holds (padding) is part of the model
    { let d = db.dictionary.read().unwrap(); for (s, id) in d.string_to_id.iter() { issued.insert(s.clone(), *id); by_id.insert(*id, s.clone()); } }
    fn note(name: &str, issued: &mut BTreeMap<String, u32>, by_id: &mut BTreeMap<u32, String>, canon: String, id: u32, quoted: bool) -> Result<(), Violation> {
        if let Some(prev) = issued.get(&canon) { if *prev != id { return Err(Violation::new("id-unstable", format!("db {}: term {:?} encoded to {} earlier and to {} now", name, canon, prev, id))); } }
        if let Some(other) = by_id.get(&id) { if *other != canon { return Err(Violation::new("id-shared", format!("db {}: distinct terms {:?} and {:?} share identifier {}", name, other, canon, id))); } }
        if is_quoted_triple_id(id) != quoted { return Err(Violation::new("id-range", format!("db {}: term {:?} (quoted: {}) got identifier {:#x}", name, canon, quoted, id))); }
        issued.insert(canon.clone(), id); by_id.insert(id, canon); Ok(())
    }
    fn enc(name: &str, db: &SparqlDatabase, t: &T, issued: &mut BTreeMap<String, u32>, by_id: &mut BTreeMap<u32, String>) -> Result<u32, Violation> {
        let id = db.encode_term_star(&t.text());
        // model every sub-term too: quoted encoding issues ids for components
        if let T::Quoted(s, p, o) = t {
            let (si, pi, oi) = (enc(name, db, s, issued, by_id)?, enc(name, db, p, issued, by_id)?, enc(name, db, o, issued, by_id)?);
            let comp = db.quoted_triple_store.read().unwrap().decode(id);
            if comp != Some((si, pi, oi)) { return Err(Violation::new("quoted-not-structural", format!("db {}: quoted term {} has id {:#x} whose components are {:?}, expected {:?}", name, t.canon(), id, comp, (si, pi, oi)))); }
        }
        note(name, issued, by_id, t.canon(), id, matches!(t, T::Quoted(..)))?;
        match db.decode_any(id) { Some(d) if d == t.canon() => {} other => return Err(Violation::new("decode-wrong", format!("db {}: decode(encode({})) = {:?}, expected {:?}", name, t.text(), other, t.canon()))) }
        Ok(id)
    }
    for (i, op) in ops.iter().enumerate() {
        match op { DOp::Encode(t) | DOp::AddQuad(t, _, _, _) | DOp::Seed(t, _, _) => collect_quoted(t, &mut quoted_terms), _ => {} }
        match op { DOp::AddQuad(_, _, t, _) | DOp::Seed(_, t, _) => collect_quoted(t, &mut quoted_terms), _ => {} }
        match op {
            DOp::Encode(t) => { enc(name, db, t, &mut issued, &mut by_id)?; }
            DOp::DictEncode(s) => { let id = db.dictionary.write().unwrap().encode(s); note(name, &mut issued, &mut by_id, s.clone(), id, false)?; let back = db.dictionary.read().unwrap().decode(id).map(|x| x.to_string()); if back.as_deref() != Some(s.as_str()) { return Err(Violation::new("decode-wrong", format!("db {}: Dictionary::decode(encode({:?})) = {:?}", name, s, back))); } }
            DOp::DecodeInvalid(id) => { if !by_id.contains_key(id) { if let Some(x) = db.decode_any(*id) { return Err(Violation::new("decode-wrong", format!("db {}: identifier {:#x} was never issued but decodes to {:?}", name, id, x))); } } }
            DOp::AddQuad(s, p, o, g) => { let q = Quad { subject: enc(name, db, s, &mut issued, &mut by_id)?, predicate: enc(name, db, p, &mut issued, &mut by_id)?, object: enc(name, db, o, &mut issued, &mut by_id)?, graph: match g { None => GraphId::Default, Some(n) => GraphId::Named(enc(name, db, &T::Iri(200 + n), &mut issued, &mut by_id)?) } }; db.add_quad(q); }
            DOp::CreateGraph(n) => { let g = enc(name, db, &T::Iri(200 + n), &mut issued, &mut by_id)?; db.dataset_index.create_graph(GraphId::Named(g)); }
            DOp::Seed(s, o, p) => { let t = Triple { subject: enc(name, db, s, &mut issued, &mut by_id)?, predicate: enc(name, db, &T::Iri(150), &mut issued, &mut by_id)?, object: enc(name, db, o, &mut issued, &mut by_id)? }; db.add_triple(t.clone()); db.probability_seeds.insert(t, *p as f64 / 100.0); }
            DOp::Recheck => { for (id, canon) in &by_id { match db.decode_any(*id) { Some(d) if d == *canon => {} other => return Err(Violation::new("id-unstable", format!("db {}: identifier {} was issued for {:?} and now decodes to {:?}", name, id, canon, other))) } } ctx.hit("probe.full_recheck_of_issued_ids"); }
        }
        ev!(ctx.log, "{} {} {:?} issued={}", name, i, op, issued.len());
        ctx.state(issued.len() as u64 * 31 + by_id.len() as u64);
    }
    // identifiers handed out earlier never change as more terms arrive
    for (id, canon) in &by_id { match db.decode_any(*id) { Some(d) if d == *canon => {} other => return Err(Violation::new("id-unstable", format!("db {}: identifier {} was issued for {:?} and decodes to {:?} at the end", name, id, canon, other))) } }
    Ok(quoted_terms)
}
fn collect_quoted(t: &T, out: &mut Vec<T>) { if let T::Quoted(s, p, o) = t { out.push(t.clone()); collect_quoted(s, out); collect_quoted(p, out); collect_quoted(o, out); } }

impl Prop for C15 {
    type Case = DictCase;
    fn id(&self) -> &'static str { "C15" }
    fn expected_counters(&self) -> Vec<&'static str> { vec!["probe.full_recheck_of_issued_ids", "probe.both_operands_hold_quoted_terms", "probe.operands_share_quads", "probe.identifiers_clash_between_operands", "probe.identical_dictionaries_different_quoted_stores", "fault.identifier_space_exhausted", "probe.refused_term_refused_again_on_retry"] }
    fn budget(&self, tier: Tier) -> Budget { match tier { Tier::Quick => Budget { runs: 6000, wall_s: 60, recheck: 30 }, Tier::Thorough => Budget { runs: 300_000, wall_s: 1000, recheck: 100 } } }
    fn hash_seed(&self, c: &DictCase) -> u64 { c.hash_seed }
    fn gen(&self, seed: u64, _i: u64, _t: Tier) -> DictCase {
        let mut r = Rng::sub(seed, "workload");
        let mut c = DictCase { hash_seed: Rng::sub(seed, "hash").next(), pad_b: r.below(7) as u32, a: gen_ops(&mut r), b: gen_ops(&mut r), exhaust: if r.chance(1, 8) { Some(r.below(4) as u32) } else { None } };
        // one case in six: both databases first encode the whole plain vocabulary in the same order, so their plain-term
        // dictionaries stay identical while their quoted-triple stores (and quads) differ
        if Rng::sub(seed, "swarm").chance(1, 6) {
            let mut pro: Vec<DOp> = vec![];
            for n in (0..8).chain(100..103).chain(150..151).chain(200..204) { pro.push(DOp::Encode(T::Iri(n))); }
            for n in 0..5 { pro.push(DOp::Encode(T::Lit(n))); } for n in 0..3 { pro.push(DOp::Encode(T::Esc(n))); } for n in 0..6 { pro.push(DOp::DictEncode(format!("raw{}", n))); }
            c.pad_b = 0; c.a = pro.iter().cloned().chain(c.a.into_iter()).collect(); c.b = pro.into_iter().chain(c.b.into_iter()).collect();
        }
        c
    }
    fn exec(&self, c: &DictCase, ctx: &mut Ctx) -> Option<Violation> {
        let mut a = SparqlDatabase::new(); let mut b = SparqlDatabase::new();
        for i in 0..c.pad_b { b.encode_term_star(&format!("<http://e/pad{}>", i)); } // shift b's identifiers so they clash with a's
        let qa = match grow("A", &mut a, &c.a, ctx) { Ok(q) => q, Err(v) => return Some(v) };
        let qb = match grow("B", &mut b, &c.b, ctx) { Ok(q) => q, Err(v) => return Some(v) };
        let (la, lb) = match (lexical(&a), lexical(&b)) { (Ok(x), Ok(y)) => (x, y), (Err(e), _) | (_, Err(e)) => return Some(Violation::new("decode-wrong", e)) };
        let u = a.union(&b);
        let lu = match lexical(&u) { Ok(x) => x, Err(e) => return Some(Violation::new("union-undecodable", format!("the union holds an identifier that does not decode: {}", e))) };
        let mq: BTreeSet<LQ> = la.quads.union(&lb.quads).cloned().collect(); let mg: BTreeSet<String> = la.graphs.union(&lb.graphs).cloned().collect();
        let mut ms = la.seeds.clone(); for (k, v) in &lb.seeds { ms.insert(k.clone(), *v); }
        ev!(ctx.log, "union: quads {}+{} -> {} graphs {} seeds {}", la.quads.len(), lb.quads.len(), lu.quads.len(), lu.graphs.len(), lu.seeds.len());
        if lu.quads != mq { return Some(Violation::new("union-quads", format!("union has {} quads, the set union has {}; missing {:?}, extra {:?}", lu.quads.len(), mq.len(), mq.difference(&lu.quads).next(), lu.quads.difference(&mq).next()))); }
        if lu.graphs != mg { return Some(Violation::new("union-graphs", format!("union graph identities {:?}, expected {:?}", lu.graphs, mg))); }
        if lu.seeds != ms { return Some(Violation::new("union-seeds", format!("union has {} probability seeds, expected {}", lu.seeds.len(), ms.len()))); }
        // quoted terms of both sides exist in the union with the same structure (looking one up must not mint a new identifier)
        for t in qa.iter().chain(qb.iter()) {
            let before = u.quoted_triple_store.read().unwrap().len();
            let uid = u.encode_term_star(&t.text());
            let after = u.quoted_triple_store.read().unwrap().len();
            if after != before || u.decode_any(uid).as_deref() != Some(t.canon().as_str()) { return Some(Violation::new("union-quoted", format!("quoted term {} of an operand is not structurally present in the union (lookup minted {} new quoted ids)", t.canon(), after - before))); }
        }
        if !qa.is_empty() && !qb.is_empty() { ctx.hit("probe.both_operands_hold_quoted_terms"); }
        match lexical(&a) { Ok(l2) if l2.quads == la.quads && l2.graphs == la.graphs => {} _ => return Some(Violation::new("union-mutated-operand", "union changed its left operand".into())) }
        // ---- a dictionary that has handed out almost every plain identifier: new terms either get a plain identifier that decodes,
        // or the dictionary refuses (its documented exhaustion panic); an identifier in the quoted-triple range is never issued for a plain term
        if let Some(gap) = c.exhaust {
            a.dictionary.write().unwrap().next_id = shared::quoted_triple_store::QUOTED_TRIPLE_ID_BIT - gap;
            for k in 0..(gap + 2) {
                let term = format!("http://e/late{}", k);
                let t2 = term.clone(); let dbr = &a;
                match guard(move || dbr.dictionary.write().map(|mut d| d.encode(&t2)).ok()) {
                    Err((_, msg)) => {
                        if !msg.contains("exhausted") { return Some(Violation::new("unwind", format!("encoding a new term near the end of the identifier space unwound: {}", msg))); }
                        ctx.hit("fault.identifier_space_exhausted"); a.dictionary.clear_poison();
                        // the refused call must leave no trace: offering the same term again is refused again (or, if accepted, gets a
                        // plain identifier that decodes back), and no plain term sits on a quoted-triple identifier
                        let t3 = term.clone(); let dbr = &a;
                        match guard(move || dbr.dictionary.write().map(|mut d| d.encode(&t3)).ok()) {
                            Err(_) => { a.dictionary.clear_poison(); ctx.hit("probe.refused_term_refused_again_on_retry"); }
                            Ok(None) => {}
                            Ok(Some(id)) => { if is_quoted_triple_id(id) || a.decode_any(id).as_deref() != Some(term.as_str()) { return Some(Violation::new("id-range", format!("term {:?} was refused (identifier space exhausted); offering it again returns identifier {:#x}, which decodes to {:?}", term, id, a.decode_any(id)))); } }
                        }
                        if a.dictionary.read().map(|d| d.string_to_id.values().any(|v| is_quoted_triple_id(*v))).unwrap_or(false) { return Some(Violation::new("id-range", "after a refused encode the dictionary maps a plain term to an identifier of the quoted-triple range".to_string())); }
                        break;
                    }
                    Ok(None) => break,
                    Ok(Some(id)) => {
                        if is_quoted_triple_id(id) { return Some(Violation::new("id-range", format!("plain term {:?} got identifier {:#x}, which lies in the quoted-triple range (next_id was {} below the boundary)", term, id, gap))); }
                        if a.decode_any(id).as_deref() != Some(term.as_str()) { return Some(Violation::new("decode-wrong", format!("term {:?} encoded near the end of the identifier space to {:#x} does not decode back", term, id))); }
                    }
                }
            }
        }
        if !la.quads.is_empty() && !lb.quads.is_empty() { ctx.nontrivial(kolibrie_verif_rt::log::fnv(&format!("{:?}{:?}", c.a, c.b))); }
        if !la.quads.is_disjoint(&lb.quads) { ctx.hit("probe.operands_share_quads"); }
        if c.pad_b > 0 { ctx.hit("probe.identifiers_clash_between_operands"); }
        if *a.dictionary.read().unwrap() == *b.dictionary.read().unwrap() && !qa.is_empty() && !qb.is_empty() && qa != qb { ctx.hit("probe.identical_dictionaries_different_quoted_stores"); }
        None
    }
    fn shrink(&self, c: &DictCase) -> Vec<DictCase> {
        let mut out = vec![];
        for x in shrink_vec(&c.a) { out.push(DictCase { a: x, ..c.clone() }); }
        for x in shrink_vec(&c.b) { out.push(DictCase { b: x, ..c.clone() }); }
        if c.pad_b > 0 { out.push(DictCase { pad_b: 0, ..c.clone() }); }
        if c.exhaust.is_some() { out.push(DictCase { exhaust: None, ..c.clone() }); }
        if c.hash_seed != 0 { out.push(DictCase { hash_seed: 0, ..c.clone() }); }
        out
    }
    fn rule(&self) -> String { "A case is two independent histories of encode / dictionary-encode / invalid-decode / quoted-encode / add-quad / create-graph / seed operations growing two databases (one with shifted identifiers so ids clash), with the bijection invariants checked after every step, followed by union of the two and comparison of lexical quads, graph identities, quoted terms and seeds with the model union. Non-trivial = both operands hold quads; distinct = hash of both histories. Quoted triples may nest a quoted triple in predicate position; one case in six gives both databases identical plain-term dictionaries and different quoted stores; after an exhaustion refusal the refused term is offered again.".into() }
    fn assumptions(&self) -> Vec<String> { vec!["terms are generated so that Kolibrie's storage convention cannot confuse kinds (IRIs absolute, plain literals v<n>, one escaped literal family)".into(), "no fault or scheduling dimension; hash seed is the only nondeterminism (weak fit)".into()] }
    fn real_vs_stub(&self) -> serde_json::Value { serde_json::json!({"real": ["shared::dictionary::Dictionary", "shared::quoted_triple_store::QuotedTripleStore", "SparqlDatabase::{encode_term_star, decode_any, union, add_quad}"], "simulated": ["hash keys"], "not_run": []}) }
}
