//! C04 — every read path of the store agrees with the set of quads written (DESIGN.md 6.3, weak fit: no fault or
//! schedule dimension; the simulator owns the operation history, the hash seed and where index rebuilds fall).
use kolibrie::sparql_database::SparqlDatabase;
use kolibrie_verif_rt::ev;
use kolibrie_verif_rt::harness::*;
use kolibrie_verif_rt::rng::Rng;
use serde::{Deserialize, Serialize};
use shared::dataset_index::{GraphId, Quad};
use shared::terms::Term;
use shared::triple::Triple;
use std::collections::{BTreeSet, HashSet};

#[derive(Serialize, Deserialize, Clone, Debug)]
pub enum Op { InsertQuad(u32, u32, u32, u32), DeleteQuad(u32, u32, u32, u32), InsertTriple(u32, u32, u32), DeleteTriple(u32, u32, u32), AddTripleDb(u32, u32, u32), CreateGraph(u32), ClearGraph(u32), DropGraph(u32), Clear, Rebuild, CloneIndex, SerdeRoundTrip,
    /// fill the database statistics cache (every SELECT and the load paths do): later direct store operations leave it stale
    Stats }
#[derive(Serialize, Deserialize, Clone, Debug)]
pub struct StoreCase { pub hash_seed: u64, pub ops: Vec<Op>, pub ngraphs: u32, pub probe_seed: u64 }
pub struct C04;
type Q = (u32, u32, u32, GraphId);
fn gid(g: u32) -> GraphId { if g == 0 { GraphId::Default } else { GraphId::Named(1000 + g) } }
fn qset(v: &[Quad]) -> (BTreeSet<Q>, bool) { let s: BTreeSet<Q> = v.iter().map(|q| (q.subject, q.predicate, q.object, q.graph)).collect(); let dup = s.len() != v.len(); (s, dup) }

impl Prop for C04 {
    type Case = StoreCase;
    fn id(&self) -> &'static str { "C04" }
    fn expected_counters(&self) -> Vec<&'static str> { vec!["fault.index_rebuild", "probe.rebuild_with_empty_named_graph", "probe.serde_roundtrip", "probe.statistics_cache_filled_mid_history"] }
    fn budget(&self, tier: Tier) -> Budget { match tier { Tier::Quick => Budget { runs: 6000, wall_s: 60, recheck: 30 }, Tier::Thorough => Budget { runs: 300_000, wall_s: 1000, recheck: 100 } } }
    fn hash_seed(&self, c: &StoreCase) -> u64 { c.hash_seed }
    fn gen(&self, seed: u64, _i: u64, _t: Tier) -> StoreCase {
        let mut r = Rng::sub(seed, "workload"); let mut cfg = Rng::sub(seed, "swarm");
        let big = cfg.chance(1, 2); let ns = if big { 14 } else { 3 }; let np = if big { 5 } else { 2 }; let ng = 3u32;
        let n = 10 + r.usize(if cfg.chance(1, 4) { 190 } else { 80 });
        let w_del = 1 + cfg.below(4) as u32; let w_graph = 1 + cfg.below(3) as u32;
        let mut ops = vec![];
        for _ in 0..n {
            let (s, p, o, g) = (r.below(ns) as u32, 100 + r.below(np) as u32, r.below(ns) as u32, r.below(ng as u64 + 1) as u32);
            ops.push(match r.weighted(&[10, 2 * w_del, 2, 1, 1, w_graph, w_graph, w_graph, 1, 2, 1, 1, 1]) {
                0 => Op::InsertQuad(s, p, o, g), 1 => Op::DeleteQuad(s, p, o, g), 2 => Op::InsertTriple(s, p, o), 3 => Op::DeleteTriple(s, p, o), 4 => Op::AddTripleDb(s, p, o),
                5 => Op::CreateGraph(g), 6 => Op::ClearGraph(g), 7 => Op::DropGraph(g), 8 => if r.chance(1, 6) { Op::Clear } else { Op::Rebuild }, 9 => Op::Rebuild, 10 => Op::CloneIndex, 11 => Op::SerdeRoundTrip, _ => Op::Stats });
        }
        StoreCase { hash_seed: Rng::sub(seed, "hash").next(), ops, ngraphs: ng, probe_seed: Rng::sub(seed, "probe").next() }
    }
    fn exec(&self, c: &StoreCase, ctx: &mut Ctx) -> Option<Violation> {
        let mut db = SparqlDatabase::new();
        // identifiers double as dictionary terms ("t<k>" <-> k) so that string-level read paths (QueryBuilder) can be driven too
        { let mut d = db.dictionary.write().unwrap(); for k in 0..1010u32 { let id = d.encode(&format!("t{}", k)); debug_assert_eq!(id, k); } }
        let mut quads: BTreeSet<Q> = BTreeSet::new(); let mut cat: BTreeSet<u32> = BTreeSet::new();
        let mut pr = Rng::new(c.probe_seed);
        let graphs: Vec<GraphId> = (0..=c.ngraphs).map(gid).collect();
        let mut last = (0u32, 100u32, 0u32, 0u32);
        macro_rules! bad { ($class:expr, $($a:tt)*) => { return Some(Violation::new($class, format!($($a)*))) } }
        for (i, op) in c.ops.iter().enumerate() {
            match op {
                Op::InsertQuad(s, p, o, g) => { last = (*s, *p, *o, *g); let r = db.dataset_index.insert_quad(&Quad { subject: *s, predicate: *p, object: *o, graph: gid(*g) }); if let GraphId::Named(n) = gid(*g) { cat.insert(n); } let m = quads.insert((*s, *p, *o, gid(*g))); if r != m { bad!("return-value", "op {} {:?}: insert_quad returned {} but the quad was {}new", i, op, r, if m { "" } else { "not " }); } }
                Op::DeleteQuad(s, p, o, g) => { last = (*s, *p, *o, *g); let r = db.dataset_index.delete_quad(&Quad { subject: *s, predicate: *p, object: *o, graph: gid(*g) }); let m = quads.remove(&(*s, *p, *o, gid(*g))); if r != m { bad!("return-value", "op {} {:?}: delete_quad returned {} but the quad was {}present", i, op, r, if m { "" } else { "not " }); } }
                Op::InsertTriple(s, p, o) => { last = (*s, *p, *o, 0); let r = db.dataset_index.insert_triple(&Triple { subject: *s, predicate: *p, object: *o }); let m = quads.insert((*s, *p, *o, GraphId::Default)); if r != m { bad!("return-value", "op {} {:?}: insert_triple returned {}", i, op, r); } }
                Op::DeleteTriple(s, p, o) => { last = (*s, *p, *o, 0); let r = db.dataset_index.delete_triple(&Triple { subject: *s, predicate: *p, object: *o }); let m = quads.remove(&(*s, *p, *o, GraphId::Default)); if r != m { bad!("return-value", "op {} {:?}: delete_triple returned {}", i, op, r); } }
                Op::AddTripleDb(s, p, o) => { last = (*s, *p, *o, 0); db.add_triple(Triple { subject: *s, predicate: *p, object: *o }); quads.insert((*s, *p, *o, GraphId::Default)); }
                Op::CreateGraph(g) => { let r = db.dataset_index.create_graph(gid(*g)); let m = match gid(*g) { GraphId::Default => false, GraphId::Named(n) => cat.insert(n) }; if r != m { bad!("return-value", "op {} {:?}: create_graph returned {} expected {}", i, op, r, m); } }
                Op::ClearGraph(g) => { db.dataset_index.clear_graph(gid(*g)); quads.retain(|q| q.3 != gid(*g)); }
                Op::DropGraph(g) => { let r = db.dataset_index.drop_graph(gid(*g)); let m = match gid(*g) { GraphId::Default => { quads.retain(|q| q.3 != GraphId::Default); true } GraphId::Named(n) => { let ex = cat.contains(&n); if ex { quads.retain(|q| q.3 != gid(*g)); cat.remove(&n); } ex } }; if r != m { bad!("return-value", "op {} {:?}: drop_graph returned {} expected {}", i, op, r, m); } }
                Op::Clear => { db.dataset_index.clear(); quads.clear(); cat.clear(); }
                Op::Rebuild => { db.build_all_indexes(); ctx.hit("fault.index_rebuild"); if cat.iter().any(|n| !quads.iter().any(|q| q.3 == GraphId::Named(*n))) { ctx.hit("probe.rebuild_with_empty_named_graph"); } }
                Op::CloneIndex => { db.dataset_index = db.dataset_index.clone(); }
                Op::Stats => { let _ = db.get_or_build_stats(); ctx.hit("probe.statistics_cache_filled_mid_history"); }
                Op::SerdeRoundTrip => { let j = serde_json::to_string(&db.dataset_index); if let Ok(j) = j { if let Ok(di) = serde_json::from_str(&j) { db.dataset_index = di; ctx.hit("probe.serde_roundtrip"); } } }
            }
            ev!(ctx.log, "{} {:?} -> {} quads {} graphs", i, op, quads.len(), cat.len());
            ctx.state(kolibrie_verif_rt::log::fnv(&format!("{:?}{:?}", quads, cat)));
            let di = &db.dataset_index;
            let (aq, dup) = qset(&di.all_quads());
            if dup || aq != quads { bad!("all-quads", "after op {} {:?}: all_quads returns {} quads (duplicates: {}), written set has {}; e.g. missing {:?} extra {:?}", i, op, aq.len(), dup, quads.len(), quads.difference(&aq).next(), aq.difference(&quads).next()); }
            let ngr: Vec<GraphId> = di.named_graphs(); let ngs: BTreeSet<u32> = ngr.iter().filter_map(|g| if let GraphId::Named(n) = g { Some(*n) } else { None }).collect();
            if ngs != cat || ngr.len() != ngs.len() { bad!("graph-catalog", "after op {} {:?}: named_graphs {:?} but the catalog should be {:?}", i, op, ngs, cat); }
            let gall = di.graphs(); if gall.len() != cat.len() + 1 || gall[0] != GraphId::Default { bad!("graph-catalog", "after op {} {:?}: graphs() = {:?}", i, op, gall); }
            // every lookup shape around the last touched triple and around a PRNG-chosen one
            let probes = [(last.0, last.1, last.2, last.3), (pr.below(14) as u32, 100 + pr.below(5) as u32, pr.below(14) as u32, pr.below(c.ngraphs as u64 + 1) as u32)];
            for (s, p, o, g) in probes {
                for shape in 0..8u32 {
                    let (bs, bp, bo) = ((shape & 1 != 0).then_some(s), (shape & 2 != 0).then_some(p), (shape & 4 != 0).then_some(o));
                    let mt = |q: &Q| bs.map_or(true, |x| x == q.0) && bp.map_or(true, |x| x == q.1) && bo.map_or(true, |x| x == q.2);
                    for gr in &graphs {
                        let (rs, dup) = qset(&di.query_graph(*gr, bs, bp, bo)); let m: BTreeSet<Q> = quads.iter().filter(|q| q.3 == *gr && mt(q)).cloned().collect();
                        if dup || rs != m { bad!("query-graph", "after op {} {:?}: query_graph({:?}, {:?},{:?},{:?}) returns {} (duplicates: {}), expected {}", i, op, gr, bs, bp, bo, rs.len(), dup, m.len()); }
                    }
                    let vis: Option<HashSet<GraphId>> = if pr.chance(1, 2) { None } else { Some(graphs.iter().filter(|_| pr.chance(1, 2)).cloned().collect()) };
                    let (rs, dup) = qset(&di.query_named_graphs(bs, bp, bo, vis.as_ref())); let m: BTreeSet<Q> = quads.iter().filter(|q| q.3 != GraphId::Default && mt(q) && vis.as_ref().map_or(true, |v| v.contains(&q.3))).cloned().collect();
                    if dup || rs != m { bad!("query-named-graphs", "after op {} {:?}: query_named_graphs({:?},{:?},{:?}, visible={:?}) returns {} (duplicates: {}), expected {}", i, op, bs, bp, bo, vis, rs.len(), dup, m.len()); }
                    let (rs, dup) = qset(&di.query_quads(bs, bp, bo, None)); let m: BTreeSet<Q> = quads.iter().filter(|q| mt(q)).cloned().collect();
                    if dup || rs != m { bad!("query-quads", "after op {} {:?}: query_quads({:?},{:?},{:?}) returns {} (duplicates: {}), expected {}", i, op, bs, bp, bo, rs.len(), dup, m.len()); }
                    let (rs, dup) = qset(&di.query_quads(bs, bp, bo, Some(gid(g)))); let m: BTreeSet<Q> = quads.iter().filter(|q| q.3 == gid(g) && mt(q)).cloned().collect();
                    if dup || rs != m { bad!("query-quads", "after op {} {:?}: query_quads in {:?} returns {}, expected {}", i, op, gid(g), rs.len(), m.len()); }
                    let src: Vec<GraphId> = graphs.iter().filter(|_| pr.chance(1, 2)).cloned().collect();
                    let r = di.query_merged_graphs(&src, bs, bp, bo); let rs: BTreeSet<(u32, u32, u32)> = r.iter().map(|t| (t.subject, t.predicate, t.object)).collect(); let m: BTreeSet<(u32, u32, u32)> = quads.iter().filter(|q| src.contains(&q.3) && mt(q)).map(|q| (q.0, q.1, q.2)).collect();
                    if r.len() != rs.len() || rs != m { bad!("query-merged", "after op {} {:?}: query_merged_graphs({:?}; {:?},{:?},{:?}) returns {} (distinct {}), expected {}", i, op, src, bs, bp, bo, r.len(), rs.len(), m.len()); }
                    let r = di.query_default(bs, bp, bo); let rs: BTreeSet<(u32, u32, u32)> = r.iter().map(|t| (t.subject, t.predicate, t.object)).collect(); let m: BTreeSet<(u32, u32, u32)> = quads.iter().filter(|q| q.3 == GraphId::Default && mt(q)).map(|q| (q.0, q.1, q.2)).collect();
                    if r.len() != rs.len() || rs != m { bad!("query-default", "after op {} {:?}: query_default({:?},{:?},{:?}) returns {}, expected {}", i, op, bs, bp, bo, r.len(), m.len()); }
                    // string-level read path of query_builder.rs over the default graph
                    { let mut qb = kolibrie::query_builder::QueryBuilder::new(&db); if let Some(x) = bs { qb = qb.with_subject(&format!("t{}", x)); } if let Some(x) = bp { qb = qb.with_predicate(&format!("t{}", x)); } if let Some(x) = bo { qb = qb.with_object(&format!("t{}", x)); }
                      let got: BTreeSet<(u32, u32, u32)> = qb.get_triples().into_iter().map(|t| (t.subject, t.predicate, t.object)).collect(); if got != m { bad!("query-builder", "after op {} {:?}: QueryBuilder({:?},{:?},{:?}).get_triples() returns {} triples, the default graph holds {} matching", i, op, bs, bp, bo, got.len(), m.len()); } }
                    { let r3 = db.query_default_triples(bs, bp, bo); let s3: BTreeSet<(u32, u32, u32)> = r3.iter().map(|t| (t.subject, t.predicate, t.object)).collect(); if r3.len() != s3.len() || s3 != m { bad!("query-default", "after op {} {:?}: SparqlDatabase::query_default_triples returns {}, expected {}", i, op, r3.len(), m.len()); } }
                    let tp = (bs.map_or(Term::Variable("s".into()), Term::Constant), bp.map_or(Term::Variable("p".into()), Term::Constant), bo.map_or(Term::Variable("o".into()), Term::Constant));
                    let r2 = di.get_matching_triples(&tp); if r2.len() != m.len() { bad!("query-default", "after op {} {:?}: get_matching_triples returns {}, expected {}", i, op, r2.len(), m.len()); }
                }
                let cq = di.contains_quad(&Quad { subject: s, predicate: p, object: o, graph: gid(g) }); if cq != quads.contains(&(s, p, o, gid(g))) { bad!("contains", "after op {} {:?}: contains_quad({},{},{},{:?}) = {}", i, op, s, p, o, gid(g), cq); }
                let gtv = di.graphs_for_triple(&Triple { subject: s, predicate: p, object: o }); let gt: BTreeSet<GraphId> = gtv.iter().copied().collect(); let m: BTreeSet<GraphId> = quads.iter().filter(|q| (q.0, q.1, q.2) == (s, p, o)).map(|q| q.3).collect();
                if gt != m || gtv.len() != gt.len() { bad!("graphs-for-triple", "after op {} {:?}: graphs_for_triple({},{},{}) = {:?}, expected {:?}", i, op, s, p, o, gtv, m); }
            }
            for gr in &graphs {
                if di.len_graph(*gr) != quads.iter().filter(|q| q.3 == *gr).count() { bad!("len-graph", "after op {} {:?}: len_graph({:?}) = {}", i, op, gr, di.len_graph(*gr)); }
                let ex = matches!(gr, GraphId::Default) || matches!(gr, GraphId::Named(n) if cat.contains(n)); if di.graph_exists(*gr) != ex { bad!("graph-catalog", "after op {} {:?}: graph_exists({:?}) = {} but the graph {}", i, op, gr, !ex, if ex { "exists" } else { "was never created or was dropped" }); }
            }
            if di.len_default() != quads.iter().filter(|q| q.3 == GraphId::Default).count() { bad!("len-graph", "after op {} {:?}: len_default", i, op); }
        }
        ctx.count("operations", c.ops.len() as u64);
        if c.ops.len() >= 10 && !quads.is_empty() { ctx.nontrivial(kolibrie_verif_rt::log::fnv(&format!("{:?}", c.ops))); }
        None
    }
    fn shrink(&self, c: &StoreCase) -> Vec<StoreCase> {
        let mut out: Vec<StoreCase> = shrink_vec(&c.ops).into_iter().map(|o| StoreCase { ops: o, ..c.clone() }).collect();
        if c.hash_seed != 0 { out.push(StoreCase { hash_seed: 0, ..c.clone() }); }
        out
    }
    fn rule(&self) -> String { "A case is one history of 10-200 store operations (insert/delete quad and triple, create/clear/drop graph, clear, index rebuild, clone, serde round trip) over a small (3x2x3 terms) or larger (14x5x14) universe and 3 named graphs + default; after every operation all lookup shapes (8 bound/unbound shapes x every graph, named-graph and merged-graph queries with PRNG-chosen visibility sets, membership, graph listing, lengths) are compared with the abstract quad set and catalog and checked for duplicates. Non-trivial = at least 10 operations ending non-empty; distinct = hash of the operation list. Histories also fill the database statistics cache (Stats step), which later direct store operations leave stale.".into() }
    fn assumptions(&self) -> Vec<String> { vec!["no fault or scheduling dimension exists for this property: the simulator owns only the history, the hash seed and where rebuilds fall (weak fit, see DESIGN.md section 0)".into()] }
    fn real_vs_stub(&self) -> serde_json::Value { serde_json::json!({"real": ["shared::dataset_index::DatasetIndex (all mutators and lookups)", "SparqlDatabase::{build_all_indexes, add_triple, query_default_triples}", "QueryBuilder::{with_subject, with_predicate, with_object, get_triples}"], "simulated": ["hash keys"], "not_run": ["QueryBuilder joins / streaming"]}) }
}
