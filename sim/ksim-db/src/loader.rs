//! C13 — loading a document adds exactly its triples, whatever its size or prior content (DESIGN.md 6.11).
//! Simulated: rayon pool (chunked loaders), crossbeam workers of parse_rdf as shuttle threads, CPU count, hash keys.
use kolibrie::sparql_database::SparqlDatabase;
use kolibrie_verif_rt::ev;
use kolibrie_verif_rt::harness::*;
use kolibrie_verif_rt::rng::Rng;
use models::quads::Q;
use serde::{Deserialize, Serialize};
use shared::dataset_index::GraphId;
use std::collections::BTreeSet;

#[derive(Serialize, Deserialize, Clone, Debug, PartialEq, Eq, PartialOrd, Ord)]
pub enum LT { Iri(u32), Lit(u32), EscLit(u32), Bn(u32), /// an IRI of a second namespace with the same local names (http://f/n<k>)
    Iri2(u32),
    /// an RDF-star quoted triple over IRIs: << <http://e/n a> <http://e/p b> <http://e/n c> >>
    Quoted(u32, u32, u32) }
#[derive(Serialize, Deserialize, Clone, Debug, PartialEq, Eq)]
pub enum Fmt { NTriples, NQuads, Turtle, N3, RdfXml }
#[derive(Serialize, Deserialize, Clone, Debug)]
pub struct Doc { pub triples: Vec<(LT, u32, LT)>, pub seed: u64 }
#[derive(Serialize, Deserialize, Clone, Debug)]
pub struct LoadCase { pub hash_seed: u64, pub pool: usize, pub rayon_seed: u64, pub cpus: i64, pub shuttle_seed: u64, pub prior: Vec<(LT, u32, LT, Option<u32>)>, pub prior_terms: u32, pub doc: Doc, pub formats: Vec<Fmt>, pub twice: bool, pub comments: bool, #[serde(default)] pub n3_literals: bool, #[serde(default)] pub nq_graphs: bool, #[serde(default)] pub lists: bool, #[serde(default)] pub prior_prefix_clash: bool,
    /// an older snapshot of the database's own dictionary is merged back (Dictionary::merge, a no-op for the stored data) before the load
    #[serde(default)] pub merge_snapshot: bool,
    /// the store held this very document before (loaded as N-Triples) and its default graph was cleared (1) or everything dropped graph by graph (2)
    #[serde(default)] pub reload_after_clear: u8,
    /// RDF/XML only: while the loader threads run, a stalled-node thread lets simulated time jump this many times by 300 ms
    #[serde(default)] pub xml_stalls: u8 }
pub struct C13;

/// escaped-literal families: backslash and quote in the middle, value ending in a backslash, value ending in a quote
fn canon(t: &LT) -> String { match t { LT::Quoted(a, b, c) => format!("<< http://e/n{} http://e/p{} http://e/n{} >>", a, b, c), LT::Iri2(n) => format!("http://f/n{}", n), LT::Iri(n) => format!("http://e/n{}", n), LT::Lit(n) => if n % 7 == 3 { format!("v#{}", n) } else if n % 5 == 1 { format!("v{}\u{e9}\u{20ac}\u{6f22}\u{1F600}", n) } else { format!("v{}", n) }, LT::EscLit(n) => match n % 3 { 0 => format!("a\"b\\c{}", n), 1 => format!("dir{}\\", n), _ => format!("say{}\"", n) }, LT::Bn(n) => format!("_:b{}", n) } }
fn nt(t: &LT) -> String { match t { LT::Quoted(a, b, c) => format!("<< <http://e/n{}> <http://e/p{}> <http://e/n{}> >>", a, b, c), LT::Iri2(n) => format!("<http://f/n{}>", n), LT::Iri(n) => format!("<http://e/n{}>", n), LT::Lit(n) => if n % 7 == 3 { format!("\"v#{}\"", n) } else if n % 5 == 1 { format!("\"v{}\u{e9}\u{20ac}\u{6f22}\u{1F600}\"", n) } else { format!("\"v{}\"", n) }, LT::EscLit(n) => match n % 3 { 0 => format!("\"a\\\"b\\\\c{}\"", n), 1 => format!("\"dir{}\\\\\"", n), _ => format!("\"say{}\\\"\"", n) }, LT::Bn(n) => format!("_:b{}", n) } }
/// predicates 100.. are RDF / RDFS schema properties (the RDF/XML loader has hard-coded branches for some of their element names)
fn pred(p: u32) -> String { match p { 100 => "http://www.w3.org/2000/01/rdf-schema#label".into(), 101 => "http://www.w3.org/2000/01/rdf-schema#subClassOf".into(), 102 => "http://www.w3.org/1999/02/22-rdf-syntax-ns#type".into(), 103 => "http://www.w3.org/2000/01/rdf-schema#comment".into(), _ => format!("http://e/p{}", p) } }
/// prefixed name of a predicate (Turtle / N3 / RDF-XML element name)
fn pname(p: u32) -> String { match p { 100 => "rdfs:label".into(), 101 => "rdfs:subClassOf".into(), 102 => "rdf:type".into(), 103 => "rdfs:comment".into(), _ => format!("e:p{}", p) } }
const SCHEMA_PREFIXES: &str = "@prefix rdf: <http://www.w3.org/1999/02/22-rdf-syntax-ns#> .\n@prefix rdfs: <http://www.w3.org/2000/01/rdf-schema#> .\n";

/// N-Quads only: statement i of the document may carry a graph name (a pure function of the render seed and i)
pub fn nq_graph(doc: &Doc, i: usize, enabled: bool) -> Option<u32> { if !enabled { return None; } let h = kolibrie_verif_rt::rng::mix(doc.seed, i as u64); if h % 4 == 0 { Some((h >> 8) as u32 % 3) } else { None } }
/// render the abstract document; blank / comment lines fall on PRNG-chosen positions so chunk boundaries hit every kind of line
pub fn render(doc: &Doc, fmt: &Fmt, comments: bool, nq_graphs: bool, lists: bool) -> String {
    let mut r = Rng::new(doc.seed);
    let mut out = String::new();
    let filler = |r: &mut Rng, out: &mut String| { if comments && r.chance(1, 7) { if r.chance(1, 2) { out.push('\n'); } else { out.push_str("# a comment line\n"); } } };
    match fmt {
        Fmt::NTriples => { for (s, p, o) in &doc.triples { filler(&mut r, &mut out); out.push_str(&format!("{} <{}> {} .\n", nt(s), pred(*p), nt(o))); } }
        Fmt::NQuads => { for (i, (s, p, o)) in doc.triples.iter().enumerate() { filler(&mut r, &mut out); match nq_graph(doc, i, nq_graphs) { Some(g) => out.push_str(&format!("{} <{}> {} <http://e/g{}> .\n", nt(s), pred(*p), nt(o), g)), None => out.push_str(&format!("{} <{}> {} .\n", nt(s), pred(*p), nt(o))) } } }
        Fmt::Turtle if lists => {
            // predicate-object lists and object lists, one statement per line: `s p o1 , o2 ; p2 o3 .`
            out.push_str("@prefix e: <http://e/> .\n"); out.push_str(SCHEMA_PREFIXES);
            let mut i = 0;
            while i < doc.triples.len() {
                filler(&mut r, &mut out);
                let (s0, _, _) = &doc.triples[i];
                let mut j = i; while j < doc.triples.len() && j < i + 4 && &doc.triples[j].0 == s0 { j += 1; }
                let st = match s0 { LT::Iri(n) if r.chance(1, 2) => format!("e:n{}", n), x => nt(x) };
                let mut line = st; let mut last_p: Option<u32> = None;
                for (_, p, o) in &doc.triples[i..j] {
                    let ot = match o { LT::Iri(n) if r.chance(1, 2) => format!("e:n{}", n), x => nt(x) };
                    if last_p == Some(*p) { line.push_str(&format!(" , {}", ot)); } else { if last_p.is_some() { line.push_str(" ;"); } line.push_str(&format!(" {} {}", pname(*p), ot)); last_p = Some(*p); }
                }
                line.push_str(" .\n"); out.push_str(&line);
                i = j;
            }
        }
        Fmt::Turtle => {
            // a second prefix z: is bound to http://e/ at the top and, when the document uses the second namespace, re-bound to
            // http://f/ half way: the same token `z:n5` then names a different IRI before and after the re-declaration
            let rebind = doc.triples.iter().any(|(s, _, o)| matches!(s, LT::Iri2(_)) || matches!(o, LT::Iri2(_)));
            out.push_str("@prefix e: <http://e/> .\n@prefix z: <http://e/> .\n"); out.push_str(SCHEMA_PREFIXES);
            let half = doc.triples.len() / 2;
            for (i, (s, p, o)) in doc.triples.iter().enumerate() {
                if rebind && i == half { out.push_str("@prefix z: <http://f/> .\n"); }
                filler(&mut r, &mut out);
                let after = rebind && i >= half;
                let mut term = |t: &LT, r: &mut Rng| -> String { match t { LT::Iri(n) if !after && r.chance(1, 3) => format!("z:n{}", n), LT::Iri(n) if r.chance(1, 2) => format!("e:n{}", n), LT::Iri2(n) if after && r.chance(2, 3) => format!("z:n{}", n), x => nt(x) } };
                let st = term(s, &mut r);
                let pt = if r.chance(1, 2) { pname(*p) } else { format!("<{}>", pred(*p)) };
                let ot = term(o, &mut r);
                out.push_str(&format!("{} {} {} .\n", st, pt, ot));
            }
        }
        Fmt::N3 => {
            out.push_str("@prefix e: <http://e/> .\n"); out.push_str(SCHEMA_PREFIXES);
            for (s, p, o) in &doc.triples {
                filler(&mut r, &mut out);
                let st = match s { LT::Iri(n) if r.chance(1, 2) => format!("e:n{}", n), x => nt(x) };
                let pt = if r.chance(1, 2) { pname(*p) } else { format!("<{}>", pred(*p)) };
                let ot = match o { LT::Iri(n) if r.chance(1, 2) => format!("e:n{}", n), x => nt(x) };
                // the N3 loader strips `#` comments from statement lines too
                let tail = if comments && r.chance(1, 9) { " # note <http://e/x#y> \"q\" ." } else { "" };
                out.push_str(&format!("{} {} {} .{}\n", st, pt, ot, tail));
            }
        }
        Fmt::RdfXml => {
            out.push_str("<?xml version=\"1.0\"?>\n<rdf:RDF xmlns:rdf=\"http://www.w3.org/1999/02/22-rdf-syntax-ns#\" xmlns:rdfs=\"http://www.w3.org/2000/01/rdf-schema#\" xmlns:e=\"http://e/\">\n");
            // with `lists`, consecutive triples of one subject share one rdf:Description element
            let mut i = 0;
            while i < doc.triples.len() {
                let s0 = &doc.triples[i].0;
                let mut j = i + 1; if lists { while j < doc.triples.len() && j < i + 4 && &doc.triples[j].0 == s0 { j += 1; } }
                out.push_str(&format!("  <rdf:Description rdf:about=\"{}\">\n", canon(s0)));
                for (_, p, o) in &doc.triples[i..j] { match o { LT::Iri(n) => out.push_str(&format!("    <{} rdf:resource=\"http://e/n{}\"/>\n", pname(*p), n)), LT::Iri2(n) => out.push_str(&format!("    <{} rdf:resource=\"http://f/n{}\"/>\n", pname(*p), n)), x => out.push_str(&format!("    <{}>{}</{}>\n", pname(*p), canon(x).replace('&', "&amp;").replace('<', "&lt;"), pname(*p))) } }
                out.push_str("  </rdf:Description>\n");
                i = j;
            }
            out.push_str("</rdf:RDF>\n");
        }
    }
    out
}
pub fn expected(doc: &Doc) -> BTreeSet<Q> { doc.triples.iter().map(|(s, p, o)| (canon(s), pred(*p), canon(o), None)).collect() }
pub fn expected_nq(doc: &Doc, nq_graphs: bool) -> BTreeSet<Q> { doc.triples.iter().enumerate().map(|(i, (s, p, o))| (canon(s), pred(*p), canon(o), nq_graph(doc, i, nq_graphs).map(|g| format!("http://e/g{}", g)))).collect() }
pub fn lexical(db: &SparqlDatabase) -> Result<(BTreeSet<Q>, BTreeSet<String>), String> {
    let d = |id: u32| db.decode_any(id).ok_or_else(|| format!("stored id {} does not decode", id));
    let mut qs = BTreeSet::new();
    for q in db.dataset_index.all_quads() { qs.insert((d(q.subject)?, d(q.predicate)?, d(q.object)?, match q.graph { GraphId::Default => None, GraphId::Named(g) => Some(d(g)?) })); }
    let mut gs = BTreeSet::new(); for g in db.dataset_index.named_graphs() { if let GraphId::Named(n) = g { gs.insert(d(n)?); } }
    Ok((qs, gs))
}
fn supported(fmt: &Fmt, doc: &Doc) -> bool {
    match fmt {
        Fmt::RdfXml => doc.triples.iter().all(|(s, _, o)| matches!(s, LT::Iri(_) | LT::Iri2(_)) && matches!(o, LT::Iri(_) | LT::Iri2(_) | LT::Lit(_))),
        _ => true,
    }
}
pub fn load(db: &mut SparqlDatabase, fmt: &Fmt, text: &str, shuttle_seed: u64, stalls: u8, ctx: &mut Ctx) -> Result<(), Violation> {
    match fmt {
        Fmt::NTriples => db.parse_ntriples_and_add(text),
        Fmt::NQuads => db.parse_nquads_and_add(text),
        Fmt::Turtle => db.parse_turtle(text),
        Fmt::N3 => db.parse_n3(text),
        Fmt::RdfXml => {
            // the crossbeam workers of parse_rdf run as shuttle threads under a seeded random scheduler
            let cell = std::sync::Arc::new(std::sync::Mutex::new(Some(std::mem::replace(db, SparqlDatabase::new()))));
            let c2 = cell.clone(); let text = text.to_string();
            let sched = shuttle::scheduler::RandomScheduler::new_from_seed(shuttle_seed, 1);
            let mut cfg = shuttle::Config::new(); cfg.stack_size = 1 << 20; cfg.max_steps = shuttle::MaxSteps::FailAfter(2_000_000); cfg.failure_persistence = shuttle::FailurePersistence::None;
            let runner = shuttle::Runner::new(sched, cfg);
            let r = guard(|| runner.run(move || {
                kolibrie_verif_rt::set_sim(true);
                // a stalled machine: simulated time jumps while the parser and its workers are at arbitrary points (the loader has no
                // business with the clock; a time-out anywhere in it would now fire)
                let stall = if stalls > 0 { kolibrie_verif_rt::clock::install(1_000_000); Some(kolibrie_verif_rt::thread::spawn(move || { for _ in 0..stalls { kolibrie_verif_rt::thread::sleep(std::time::Duration::ZERO); kolibrie_verif_rt::clock::advance(300_000_000); } })) } else { None };
                let mut d = c2.lock().unwrap().take().unwrap(); d.parse_rdf(&text); *c2.lock().unwrap() = Some(d);
                if let Some(h) = stall { let _ = h.join(); kolibrie_verif_rt::clock::uninstall(); }
            }));
            kolibrie_verif_rt::clock::uninstall();
            kolibrie_verif_rt::set_sim(false);
            if stalls > 0 { ctx.hit("fault.clock_jumps_while_xml_workers_wait"); }
            match r { Ok(_) => { *db = cell.lock().unwrap().take().unwrap(); ctx.hit("fault.shuttle_scheduled_xml_workers"); } Err((loc, msg)) => return Err(Violation::new("loader-deadlock-or-panic", format!("parse_rdf under the simulated scheduler failed at {}: {}", loc, msg.chars().take(300).collect::<String>()))) }
        }
    }
    Ok(())
}

impl Prop for C13 {
    type Case = LoadCase;
    fn id(&self) -> &'static str { "C13" }
    fn expected_counters(&self) -> Vec<&'static str> { vec!["fault.shuttle_scheduled_xml_workers", "probe.document_loaded_twice", "probe.document_spans_several_loader_chunks", "probe.load_into_populated_store", "probe.database_binds_the_documents_prefixes_differently", "probe.schema_property_elements", "probe.older_dictionary_snapshot_merged_before_load", "probe.same_triples_loaded_and_cleared_before", "fault.clock_jumps_while_xml_workers_wait", "fault.pool_split_into_several_jobs", "fault.jobs_run_out_of_index_order"] }
    fn budget(&self, tier: Tier) -> Budget { match tier { Tier::Quick => Budget { runs: 4000, wall_s: 60, recheck: 20 }, Tier::Thorough => Budget { runs: 300_000, wall_s: 1000, recheck: 60 } } }
    fn hash_seed(&self, c: &LoadCase) -> u64 { c.hash_seed }
    fn gen(&self, seed: u64, _i: u64, _t: Tier) -> LoadCase {
        let mut r = Rng::sub(seed, "workload"); let mut cfg = Rng::sub(seed, "swarm");
        let size_class = cfg.below(10);
        let n = match size_class { 0 => *r.pick(&[999usize, 1000, 1001, 1999, 2000, 2001, 2500]), 1 => 990 + r.usize(30), 2 if cfg.chance(1, 2) => *r.pick(&[8191usize, 8192, 8193, 16384, 16385]), _ => 1 + r.usize(60) };
        let big = n > 200;
        let vocab = if big { (n as u64) * 2 } else { 12 };
        let second_ns = cfg.chance(1, 5); let star = cfg.chance(1, 6);
        let term = |r: &mut Rng, obj: bool| -> LT { if second_ns && r.chance(1, 4) { return LT::Iri2(r.below(vocab.min(12)) as u32); } if star && r.chance(1, 5) { return LT::Quoted(r.below(6) as u32, r.below(3) as u32, r.below(6) as u32); } match r.below(10) { 0 | 1 if obj => LT::Lit(r.below(vocab) as u32), 2 if obj => LT::EscLit(r.below(5) as u32), 3 => LT::Bn(r.below(6) as u32), _ => LT::Iri(r.below(vocab) as u32) } };
        let schema_preds = cfg.chance(1, 4);
        let triples: Vec<(LT, u32, LT)> = (0..n).map(|_| (term(&mut r, false), if schema_preds && r.chance(1, 3) { 100 + r.below(4) as u32 } else { r.below(4) as u32 }, term(&mut r, true))).collect();
        let mut triples = triples; if cfg.chance(1, 3) { triples.sort_by(|a, b| a.0.cmp(&b.0)); }
        let prior_kind = cfg.below(3);
        let prior: Vec<(LT, u32, LT, Option<u32>)> = if prior_kind == 0 { vec![] } else { (0..(1 + r.usize(12))).map(|_| (LT::Iri(r.below(vocab + 5) as u32), r.below(5) as u32, term(&mut r, true), if r.chance(1, 3) { Some(r.below(3) as u32) } else { None })).collect() };
        let all = [Fmt::NTriples, Fmt::NQuads, Fmt::Turtle, Fmt::N3, Fmt::RdfXml];
        let formats: Vec<Fmt> = if n >= 8000 { vec![Fmt::RdfXml, r.pick(&all).clone()] } else if big { vec![r.pick(&all).clone(), r.pick(&all).clone()] } else { all.to_vec() };
        LoadCase { hash_seed: Rng::sub(seed, "hash").next(), pool: *cfg.pick(&[1, 2, 3, 4, 8, 16]), rayon_seed: Rng::sub(seed, "rayon").next(), cpus: 1 + cfg.below(16) as i64, shuttle_seed: Rng::sub(seed, "shuttle").next(),
            prior, prior_terms: if prior_kind == 2 { r.below(40) as u32 } else { 0 }, doc: Doc { triples, seed: r.next() }, formats, twice: cfg.chance(1, 4), comments: cfg.chance(1, 2), n3_literals: cfg.chance(1, 10), nq_graphs: cfg.chance(1, 2), lists: cfg.chance(1, 3), prior_prefix_clash: cfg.chance(1, 3), merge_snapshot: cfg.chance(1, 4), reload_after_clear: if cfg.chance(1, 5) { 1 + cfg.below(2) as u8 } else { 0 }, xml_stalls: if cfg.chance(1, 2) { 1 + cfg.below(6) as u8 } else { 0 } }
    }
    fn exec(&self, c: &LoadCase, ctx: &mut Ctx) -> Option<Violation> {
        rayon::sim_configure(c.rayon_seed, c.pool);
        kolibrie_verif_rt::hash::set_cpus(c.cpus);
        let want_doc = expected(&c.doc);
        let mut per_format: Vec<(Fmt, BTreeSet<Q>)> = vec![];
        let fin = |v: Option<Violation>| { rayon::sim_reset(); kolibrie_verif_rt::hash::set_cpus(0); v };
        for fmt in &c.formats {

            let mut db = SparqlDatabase::new();
            // prior content: terms in the dictionary, quads in default and named graphs, a prefix
            if c.reload_after_clear > 0 {
                db.parse_ntriples_and_add(&render(&c.doc, &Fmt::NTriples, false, false, false));
                if c.reload_after_clear == 1 { db.dataset_index.clear_graph(GraphId::Default); } else { for g in db.dataset_index.graphs() { db.dataset_index.drop_graph(g); } }
                ctx.hit("probe.same_triples_loaded_and_cleared_before");
            }
            for i in 0..c.prior_terms { db.encode_term_star(&format!("<http://e/pad{}>", i)); }
            let snapshot = if c.merge_snapshot { Some(db.dictionary.read().unwrap().clone()) } else { None };
            db.prefixes.insert("old".into(), "http://old/".into());
            // the database may already bind the very prefixes the document declares, to other namespaces
            if c.prior_prefix_clash { for k in ["e", "z", "rdfs"] { db.prefixes.insert(k.into(), format!("http://old/{}/", k)); } ctx.hit("probe.database_binds_the_documents_prefixes_differently"); }
            for (s, p, o, g) in &c.prior { match g { None => { db.add_triple_parts(&canon(s), &pred(*p), &canon(o)); } Some(gn) => { db.add_quad_parts(&nt(s), &format!("<{}>", pred(*p)), &nt(o), &format!("http://e/g{}", gn)); } } }
            if let Some(snap) = &snapshot { db.dictionary.write().unwrap().merge(snap); ctx.hit("probe.older_dictionary_snapshot_merged_before_load"); }
            let (before, graphs_before) = match lexical(&db) { Ok(x) => x, Err(e) => return fin(Some(Violation::new("dataset-undecodable", e))) };
            // N3 keeps the quotes of literals (a listed finding, see known_findings.json): outside the 1-in-10 runs that
            // stay in that region, the N3 rendering of the document has its literal objects replaced by IRIs so that chunking,
            // prior content and prefixes of the N3 loader stay fully explored
            let proj_doc; let has_quoted = c.doc.triples.iter().any(|(s, _, o)| matches!(s, LT::Quoted(..)) || matches!(o, LT::Quoted(..)));
            let (doc, want_doc) = if *fmt == Fmt::N3 && ((!c.n3_literals && c.doc.triples.iter().any(|(_, _, o)| matches!(o, LT::Lit(_) | LT::EscLit(_)))) || has_quoted) {
                proj_doc = Doc { triples: c.doc.triples.iter().map(|(s, p, o)| (match s { LT::Quoted(a, _, _) => LT::Iri(*a + 60_000), x => x.clone() }, *p, match o { LT::Lit(n) | LT::EscLit(n) => LT::Iri(*n + 70_000), LT::Quoted(a, _, _) => LT::Iri(*a + 60_000), x => x.clone() })).collect(), seed: c.doc.seed };
                (&proj_doc, expected(&proj_doc))
            } else if *fmt == Fmt::RdfXml && !supported(fmt, &c.doc) {
                // the RDF/XML subset has IRI subjects and IRI / plain-literal objects: project the document onto it
                proj_doc = Doc { triples: c.doc.triples.iter().map(|(s, p, o)| (match s { LT::Iri(n) => LT::Iri(*n), LT::Iri2(n) => LT::Iri2(*n), LT::Quoted(a, _, _) => LT::Iri(*a + 60_000), LT::Bn(n) | LT::Lit(n) | LT::EscLit(n) => LT::Iri(*n + 80_000) }, *p, match o { LT::Bn(n) => LT::Iri(*n + 80_000), LT::EscLit(n) => LT::Lit(*n + 90_000), LT::Quoted(a, _, _) => LT::Iri(*a + 60_000), x => x.clone() })).collect(), seed: c.doc.seed };
                (&proj_doc, expected(&proj_doc))
            } else { (&c.doc, want_doc.clone()) };
            let want_doc = if *fmt == Fmt::NQuads && c.nq_graphs { expected_nq(doc, true) } else { want_doc };
            let text = render(doc, fmt, c.comments, c.nq_graphs, c.lists);
            let lines = text.lines().count();
            if let Err(v) = load(&mut db, fmt, &text, c.shuttle_seed, c.xml_stalls, ctx) { return fin(Some(v)); }
            if c.twice { if let Err(v) = load(&mut db, fmt, &text, c.shuttle_seed ^ 1, c.xml_stalls, ctx) { return fin(Some(v)); } ctx.hit("probe.document_loaded_twice"); }
            let (after, graphs_after) = match lexical(&db) { Ok(x) => x, Err(e) => return fin(Some(Violation::new("dataset-undecodable", format!("after loading {:?} ({} lines): {}", fmt, lines, e)))) };
            let want: BTreeSet<Q> = before.union(&want_doc).cloned().collect();
            ev!(ctx.log, "{:?} lines={} prior={} after={} want={}", fmt, lines, before.len(), after.len(), want.len());
            if lines > 1000 { ctx.hit("probe.document_spans_several_loader_chunks"); }
            if doc.triples.iter().any(|(_, p, _)| *p >= 100) { ctx.hit("probe.schema_property_elements"); }
            if !before.is_empty() { ctx.hit("probe.load_into_populated_store"); }
            if after != want {
                let missing: Vec<&Q> = want.difference(&after).take(2).collect(); let extra: Vec<&Q> = after.difference(&want).take(2).collect();
                let lost_prior = before.difference(&after).next().is_some();
                // (a triple stored with its quotes kept next to an identical, correctly stored prior triple is the same discrepancy as `triples-differ`,
                // only the expected form happened to be there already)
                let quoted_form = extra.iter().any(|q| q.2.starts_with('"'));
                let class = format!("{:?}:{}", fmt, if lost_prior { "prior-content-changed" } else if !missing.is_empty() && extra.is_empty() { "triples-missing" } else if missing.is_empty() && !quoted_form { "foreign-triples" } else { "triples-differ" });
                return fin(Some(Violation::new(&class, format!("loading a {}-line {:?} document ({} distinct triples) into a store with {} quads (dictionary pre-filled with {} extra terms, pool {}, cpus {}) leaves {} quads, expected {}; missing e.g. {:?}; unexpected e.g. {:?}", lines, fmt, want_doc.len(), before.len(), c.prior_terms, c.pool, c.cpus, after.len(), want.len(), missing, extra))));
            }
            let graphs_want: BTreeSet<String> = graphs_before.iter().cloned().chain(want_doc.iter().filter_map(|q| q.3.clone())).collect();
            if graphs_after != graphs_want { return fin(Some(Violation::new(&format!("{:?}:graph-catalog-changed", fmt), format!("loading changed the named graphs from {:?} to {:?}, expected {:?}", graphs_before, graphs_after, graphs_want)))); }
            if std::ptr::eq(doc, &c.doc) && !(*fmt == Fmt::NQuads && c.nq_graphs) { per_format.push((fmt.clone(), after.difference(&before).cloned().collect())); }
        }
        // the same triples written in different formats load identically (implied by the per-format check; kept as its own clause)
        for w in per_format.windows(2) { let (a, b) = (&w[0], &w[1]); let (xa, xb): (BTreeSet<&Q>, BTreeSet<&Q>) = (a.1.iter().filter(|q| want_doc.contains(*q)).collect(), b.1.iter().filter(|q| want_doc.contains(*q)).collect()); if xa != xb && c.prior.is_empty() { return fin(Some(Violation::new("formats-disagree", format!("{:?} and {:?} of the same document load different triples", a.0, b.0)))); } }
        let st = rayon::sim_stats(); ctx.count("fault.pool_split_into_several_jobs", st.split_consumes); ctx.count("fault.jobs_run_out_of_index_order", st.out_of_order);
        if want_doc.len() >= 2 { ctx.nontrivial(kolibrie_verif_rt::log::fnv(&format!("{:?}{:?}{:?}", c.doc.triples.len(), c.doc.seed, c.formats))); }
        ctx.state(want_doc.len() as u64);
        fin(None)
    }
    fn shrink(&self, c: &LoadCase) -> Vec<LoadCase> {
        let mut out = vec![];
        for f in shrink_vec(&c.formats) { if !f.is_empty() { out.push(LoadCase { formats: f, ..c.clone() }); } }
        for t in shrink_vec(&c.doc.triples).into_iter().take(40) { if !t.is_empty() { out.push(LoadCase { doc: Doc { triples: t, seed: c.doc.seed }, ..c.clone() }); } }
        for p in shrink_vec(&c.prior) { out.push(LoadCase { prior: p, ..c.clone() }); }
        if c.prior_terms > 0 { out.push(LoadCase { prior_terms: 0, ..c.clone() }); }
        if c.twice { out.push(LoadCase { twice: false, ..c.clone() }); }
        if c.comments { out.push(LoadCase { comments: false, ..c.clone() }); }
        if c.n3_literals { out.push(LoadCase { n3_literals: false, ..c.clone() }); }
        if c.nq_graphs { out.push(LoadCase { nq_graphs: false, ..c.clone() }); }
        if c.lists { out.push(LoadCase { lists: false, ..c.clone() }); }
        if c.prior_prefix_clash { out.push(LoadCase { prior_prefix_clash: false, ..c.clone() }); }
        if c.merge_snapshot { out.push(LoadCase { merge_snapshot: false, ..c.clone() }); }
        if c.reload_after_clear > 0 { out.push(LoadCase { reload_after_clear: 0, ..c.clone() }); }
        if c.xml_stalls > 0 { out.push(LoadCase { xml_stalls: 0, ..c.clone() }); }
        if c.doc.triples.iter().any(|(_, p, _)| *p >= 100) { let t = c.doc.triples.iter().map(|(s, p, o)| (s.clone(), if *p >= 100 { *p - 100 } else { *p }, o.clone())).collect(); out.push(LoadCase { doc: Doc { triples: t, seed: c.doc.seed }, ..c.clone() }); }
        if c.pool != 1 { out.push(LoadCase { pool: 1, rayon_seed: 0, ..c.clone() }); }
        if c.cpus != 1 { out.push(LoadCase { cpus: 1, ..c.clone() }); }
        // simplify terms
        if c.doc.triples.iter().any(|(s, _, o)| !matches!(s, LT::Iri(_)) || !matches!(o, LT::Iri(_))) { let t = c.doc.triples.iter().map(|(s, p, o)| (match s { LT::Iri(n) | LT::Iri2(n) => LT::Iri(*n), LT::Quoted(a, _, _) => LT::Iri(*a + 600), LT::Bn(n) | LT::Lit(n) | LT::EscLit(n) => LT::Iri(*n + 500) }, *p, match o { LT::Iri(n) | LT::Iri2(n) => LT::Iri(*n), LT::Quoted(a, _, _) => LT::Iri(*a + 600), LT::Bn(n) | LT::Lit(n) | LT::EscLit(n) => LT::Iri(*n + 500) })).collect(); out.push(LoadCase { doc: Doc { triples: t, seed: c.doc.seed }, ..c.clone() }); }
        if c.doc.triples.iter().any(|(_, _, o)| matches!(o, LT::EscLit(_))) { let t = c.doc.triples.iter().map(|(s, p, o)| (s.clone(), *p, match o { LT::EscLit(n) => LT::Lit(*n), x => x.clone() })).collect(); out.push(LoadCase { doc: Doc { triples: t, seed: c.doc.seed }, ..c.clone() }); }
        out
    }
    fn rule(&self) -> String { "A case is one abstract triple list (IRIs, plain and escaped literals, blank nodes) rendered to N-Triples, N-Quads, line-oriented Turtle, N3 and RDF/XML with line counts at and around the internal chunk boundaries (999..2500 lines; 8191..8193 triples for RDF/XML), comments and blank lines at PRNG-chosen positions, loaded into an empty or pre-populated database (quads, named graphs, prefix, pre-filled dictionary), optionally twice, under a simulated rayon pool, simulated CPU count and (RDF/XML) shuttle-scheduled crossbeam workers. Oracle: lexical quads after = before + document triples, catalog unchanged, formats agree. Non-trivial = at least 2 distinct triples; distinct = hash of (size, render seed, formats). Documents use RDF / RDFS schema properties as predicates, '#' inside IRIs, literals and trailing N3 comments, 2-4-byte characters; the prior database may bind the document's own prefixes to other namespaces, may have had an older snapshot of its dictionary merged back, and may have held the same triples before a clear / drop. Half of the cases run a stalled-node thread that lets simulated time jump while the RDF/XML workers wait.".into() }
    fn assumptions(&self) -> Vec<String> { vec!["'as written' is taken in Kolibrie's storage convention as N-Triples/N-Quads/RDF-XML apply it (IRI without brackets, plain literal by decoded lexical value, blank-node label verbatim)".into(), "RDF/XML documents use rdf:Description + property elements with IRI subjects and IRI / plain-literal objects".into()] }
    fn real_vs_stub(&self) -> serde_json::Value { serde_json::json!({"real": ["SparqlDatabase::{parse_ntriples_and_add, parse_nquads_and_add, parse_turtle, parse_n3, parse_rdf}", "Dictionary::merge", "quick-xml"], "simulated": ["rayon (sim-rayon)", "crossbeam channel + scope (sim-crossbeam on shuttle threads)", "CPU count (sysconf interposer)", "hash keys"], "not_run": ["parse_rdf_from_file (filesystem)"]}) }
    fn matches_known(&self, c: &LoadCase, v: &Violation, matcher: &str) -> bool {
        match matcher {
            "n3-literal-convention" => v.class.starts_with("N3:") && c.n3_literals && c.doc.triples.iter().any(|(_, _, o)| matches!(o, LT::Lit(_) | LT::EscLit(_))),
            "turtle-escaped-literal" => v.class.starts_with("Turtle:") && c.doc.triples.iter().any(|(_, _, o)| matches!(o, LT::EscLit(_))),
            _ => false,
        }
    }
}
