//! ksim-db: simulation engines that link the whole (shadow) kolibrie crate: dbsim (C02 C03 C04 C13 C15 C17), rspsim (C09 C10 C11).
kolibrie_verif_rt::interpose!();
mod store;
mod dict;
mod update;
mod loader;
mod plan;
mod rsp;
#[allow(dead_code)]
#[path = "../../ksim-core/src/dlsim.rs"]
mod dlsim;
use kolibrie_verif_rt::harness::{self, Tier};

fn usage() -> ! { eprintln!("usage: ksim-db <ID> <quick|thorough> | replay <file> | one <ID> <run_index> [tier]"); std::process::exit(2) }
fn tier(s: &str) -> Tier { match s { "quick" => Tier::Quick, "thorough" => Tier::Thorough, _ => usage() } }
macro_rules! dispatch {
    ($id:expr, $f:ident $(, $a:expr)*) => { match $id { "C04" => harness::$f(store::C04 $(, $a)*), "C15" => harness::$f(dict::C15 $(, $a)*), "C03" => harness::$f(update::C03 $(, $a)*), "C17" => harness::$f(update::C17 $(, $a)*), "C13" => harness::$f(loader::C13 $(, $a)*), "C02" => harness::$f(plan::C02 $(, $a)*), "C09" => harness::$f(rsp::C09 $(, $a)*), "C10" => harness::$f(rsp::C10 $(, $a)*), "C11" => harness::$f(rsp::C11 $(, $a)*), "C12" => harness::$f(rsp::C12 $(, $a)*), _ => usage() } };
}
fn main() {
    let args: Vec<String> = std::env::args().collect();
    if args.len() < 3 { usage(); }
    match args[1].as_str() {
        "replay" | "replay-child" => {
            let txt = std::fs::read_to_string(&args[2]).unwrap_or_else(|e| { eprintln!("cannot read {}: {}", args[2], e); std::process::exit(2) });
            let v: serde_json::Value = serde_json::from_str(&txt).unwrap_or_else(|e| { eprintln!("bad replay file: {}", e); std::process::exit(2) });
            let id = v["property"].as_str().unwrap_or("").to_string();
            dispatch!(id.as_str(), replay_file, &args[2])
        }
        "one" => { if args.len() < 4 { usage(); } let t = if args.len() > 4 { tier(&args[4]) } else { Tier::Quick }; dispatch!(args[2].as_str(), run_one, args[3].parse().unwrap(), t) }
        id => { let t = tier(&args[2]); dispatch!(id, run_check, t) }
    }
}
