//! C02 — query answers do not depend on the plan the optimizer happens to choose (DESIGN.md 6.1).
//! Explored space: BGP permutations x {fresh, stale, empty, adversarial} statistics x forced join algorithms /
//! scan kinds / de-starred plans x simulated rayon pool (size, splits, job order) x hash seed. Metamorphic oracle.
use kolibrie::execute_query::execute_sparql_query;
use kolibrie::parser::parse_combined_query;
use kolibrie::sparql_database::SparqlDatabase;
use kolibrie::streamertail_optimizer::*;
use kolibrie_verif_rt::ev;
use kolibrie_verif_rt::harness::*;
use kolibrie_verif_rt::rng::Rng;
use serde::{Deserialize, Serialize};
use shared::dataset_index::{GraphId, Quad};
use shared::query::SparqlOperation;
use std::collections::{BTreeMap, HashMap};
use std::sync::Arc;

#[derive(Serialize, Deserialize, Clone, Debug)]
pub struct TP { pub s: String, pub p: String, pub o: String }
#[derive(Serialize, Deserialize, Clone, Debug)]
pub enum Elem {
    Bgp(Vec<TP>), Graph { g: String, bgp: Vec<TP> }, Union(Vec<Elem>, Vec<Elem>), Filter(String), Bind { expr: String, var: String },
    Values { var: String, vals: Vec<Option<String>> }, ValuesN { vars: Vec<String>, rows: Vec<Vec<Option<String>>> }, GraphF { g: String, bgp: Vec<TP>, filter: String }, Sub { distinct: bool, vars: Vec<String>, body: Vec<Elem>, order: bool, limit: Option<usize> },
}
#[derive(Serialize, Deserialize, Clone, Debug)]
pub struct QSpec { pub vars: Vec<String>, pub distinct: bool, pub body: Vec<Elem>, pub order: bool, pub limit: Option<usize>, pub from: Vec<String>, pub from_named: Vec<String>, pub agg: Option<(String, String, String)> }
#[derive(Serialize, Deserialize, Clone, Debug)]
pub struct Variant { pub perm_seed: u64, pub stats: u8, pub plan_mode: u8, pub plan_seed: u64, pub pool: usize, pub rayon_seed: u64, pub hash_seed: u64 }
#[derive(Serialize, Deserialize, Clone, Debug)]
pub struct PlanCase { pub hash_seed: u64, pub quads: Vec<(String, String, String, Option<String>)>, pub empty_graphs: Vec<String>, pub stale_extra: Vec<(String, String, String)>, pub stale_missing: usize, pub query: QSpec, pub variants: Vec<Variant>,
    /// quads that were inserted and deleted again before the first query (every index has to forget them)
    #[serde(default)] pub deleted: Vec<(String, String, String, Option<String>)> }
pub struct C02;

// ---------------------------------------------------------------- rendering
fn perm<T: Clone>(xs: &[T], r: &mut Option<Rng>) -> Vec<T> { let mut v = xs.to_vec(); if let Some(r) = r { r.shuffle(&mut v); } v }
fn render_bgp(b: &[TP], r: &mut Option<Rng>) -> String { perm(b, r).iter().map(|t| format!("{} {} {} . ", t.s, t.p, t.o)).collect() }
/// a permuted rendering also shuffles every maximal run of adjacent pattern blocks (basic graph patterns and GRAPH blocks):
/// they are joined, and a join does not depend on the textual order of its operands
fn block_order(es: &[Elem], r: &mut Option<Rng>) -> Vec<Elem> {
    let Some(rng) = r else { return es.to_vec() };
    let is_block = |e: &Elem| matches!(e, Elem::Bgp(_) | Elem::Graph { .. } | Elem::GraphF { .. });
    let mut out: Vec<Elem> = vec![]; let mut i = 0;
    while i < es.len() {
        if is_block(&es[i]) { let mut j = i; while j < es.len() && is_block(&es[j]) { j += 1; } let mut run = es[i..j].to_vec(); if run.len() > 1 { rng.shuffle(&mut run); } out.extend(run); i = j; }
        else { out.push(es[i].clone()); i += 1; }
    }
    out
}
fn render_elems(es: &[Elem], r: &mut Option<Rng>) -> String {
    let mut s = String::new();
    let es = &block_order(es, r);
    for e in es {
        match e {
            Elem::Bgp(b) => s.push_str(&render_bgp(b, r)),
            Elem::Graph { g, bgp } => s.push_str(&format!("GRAPH {} {{ {} }} ", g, render_bgp(bgp, r))),
            Elem::Union(a, b) => s.push_str(&format!("{{ {} }} UNION {{ {} }} ", render_elems(a, r), render_elems(b, r))),
            Elem::Filter(f) => s.push_str(&format!("FILTER ({}) ", f)),
            Elem::Bind { expr, var } => s.push_str(&format!("BIND({} AS {}) ", expr, var)),
            Elem::Values { var, vals } => s.push_str(&format!("VALUES {} {{ {} }} ", var, vals.iter().map(|v| v.clone().unwrap_or("UNDEF".into())).collect::<Vec<_>>().join(" "))),
            Elem::ValuesN { vars, rows } => s.push_str(&format!("VALUES ({}) {{ {} }} ", vars.join(" "), rows.iter().map(|r| format!("({})", r.iter().map(|v| v.clone().unwrap_or("UNDEF".into())).collect::<Vec<_>>().join(" "))).collect::<Vec<_>>().join(" "))),
            Elem::GraphF { g, bgp, filter } => s.push_str(&format!("GRAPH {} {{ {} FILTER ({}) }} ", g, render_bgp(bgp, r), filter)),
            Elem::Sub { distinct, vars, body, order, limit } => s.push_str(&format!("{{ SELECT {}{} WHERE {{ {} }}{}{} }} ", if *distinct { "DISTINCT " } else { "" }, vars.join(" "), render_elems(body, r), if *order { format!(" ORDER BY {}", vars.join(" ")) } else { String::new() }, limit.map(|l| format!(" LIMIT {}", l)).unwrap_or_default())),
        }
    }
    s
}
pub fn render(q: &QSpec, perm_seed: u64) -> String {
    let mut r = if perm_seed == 0 { None } else { Some(Rng::new(perm_seed)) };
    let sel = match &q.agg { Some((gv, f, av)) => format!("{} ({}({}) AS ?agg)", gv, f, av), None => q.vars.join(" ") };
    let mut s = format!("SELECT {}{} ", if q.distinct { "DISTINCT " } else { "" }, sel);
    for f in &q.from { s.push_str(&format!("FROM <{}> ", f)); }
    for f in &q.from_named { s.push_str(&format!("FROM NAMED <{}> ", f)); }
    s.push_str(&format!("WHERE {{ {} }}", render_elems(&q.body, &mut r)));
    if let Some((gv, _, _)) = &q.agg { s.push_str(&format!(" GROUP BY {}", gv)); }
    if q.order { let keys = if q.agg.is_some() { vec![q.agg.as_ref().unwrap().0.clone()] } else { q.vars.clone() }; s.push_str(&format!(" ORDER BY {}", keys.join(" "))); }
    if let Some(l) = q.limit { s.push_str(&format!(" LIMIT {}", l)); }
    s
}

// ---------------------------------------------------------------- generation
struct Voc { nn: u64, np: u64 }
impl Voc {
    fn n(&self, r: &mut Rng) -> String { format!("<http://e/n{}>", r.below(self.nn)) }
    fn p(&self, r: &mut Rng) -> String { format!("<http://e/p{}>", r.below(self.np)) }
}
fn gen_bgp(r: &mut Rng, v: &Voc, vars: &[&str], k: usize, shape: u64) -> Vec<TP> {
    let mut out = vec![];
    for i in 0..k {
        let (s, o) = match shape {
            0 => (vars[i % vars.len()].to_string(), vars[(i + 1) % vars.len()].to_string()),                                  // chain
            1 => (vars[0].to_string(), vars[(i + 1) % vars.len()].to_string()),                                                // star
            2 => (vars[i % vars.len()].to_string(), vars[(i + 1) % k.max(1) % vars.len()].to_string()),                        // cycle
            _ => (vars[(2 * i) % vars.len()].to_string(), vars[(2 * i + 1) % vars.len()].to_string()),                        // Cartesian-ish
        };
        let s = if r.chance(1, 7) { v.n(r) } else { s };
        let o = match r.below(9) { 0 => v.n(r), 1 => format!("\"v{}\"", r.below(3)), _ => o };
        let p = if r.chance(1, 12) { "?pv".to_string() } else { v.p(r) };
        out.push(TP { s, p, o });
    }
    out
}
fn vars_of(b: &[TP]) -> Vec<String> { let mut v: Vec<String> = b.iter().flat_map(|t| [t.s.clone(), t.p.clone(), t.o.clone()]).filter(|x| x.starts_with('?')).collect(); v.sort(); v.dedup(); v }
fn gen_group(r: &mut Rng, cfg_bits: u64, v: &Voc, depth: u32) -> Vec<Elem> {
    let vars = ["?a", "?b", "?c", "?d"];
    let mut out = vec![];
    let k = 1 + r.usize(if cfg_bits & 1 != 0 { 5 } else { 3 });
    let shape = r.below(4); let main = gen_bgp(r, v, &vars, k, shape);
    let mv = vars_of(&main);
    out.push(Elem::Bgp(main));
    if cfg_bits & 128 != 0 && r.chance(1, 2) {
        // numeric pattern with an arithmetic / comparison filter over its own variable
        let subj = if !mv.is_empty() && r.chance(2, 3) { mv.iter().find(|x| *x != "?pv").cloned().unwrap_or("?a".into()) } else { "?a".to_string() };
        out.push(Elem::Bgp(vec![TP { s: subj, p: "<http://e/num>".into(), o: "?n".into() }]));
        let k = r.below(10);
        out.push(Elem::Filter(match r.below(4) { 0 => format!("?n > {}", k), 1 => format!("?n <= {}", k), 2 => format!("(?n + 1) >= {}", k), _ => format!("?n != {}", k) }));
    }
    if cfg_bits & 256 != 0 && depth == 0 && r.chance(1, 2) { let g = if r.chance(1, 2) { "?g".to_string() } else { format!("<http://e/g{}>", r.below(3)) }; let ka = 1 + r.usize(2); let kb = 1 + r.usize(2); out.push(Elem::Union(vec![Elem::Graph { g, bgp: gen_bgp(r, v, &vars, ka, 0) }], vec![Elem::Bgp(gen_bgp(r, v, &vars, kb, 1))])); }
    if cfg_bits & 2 != 0 && r.chance(1, 2) { let g = if r.chance(1, 2) { "?g".to_string() } else { format!("<http://e/g{}>", r.below(3)) }; let kk = 1 + r.usize(2); let sh = r.below(2); let mut bgp = gen_bgp(r, v, &vars, kk, sh);
        if cfg_bits & 4096 != 0 && g == "?g" {
            // the graph variable also stands in a triple position inside its own block, and / or is bound by the enclosing group first
            if r.chance(1, 2) { let x = vars[r.usize(2)].to_string(); bgp.push(if r.chance(1, 2) { TP { s: "?g".into(), p: v.p(r), o: x } } else { TP { s: x, p: v.p(r), o: "?g".into() } }); }
            if r.chance(1, 2) { if let Some(Elem::Bgp(main)) = out.first_mut() { main.push(TP { s: vars[r.usize(2)].to_string(), p: v.p(r), o: "?g".into() }); } }
        }
        // the same block once more under another graph variable / graph: look-alike sub-plans for the optimizer's memo table
        if cfg_bits & 2048 != 0 && r.chance(1, 2) { let g2 = if g == "?g" || r.chance(1, 2) { "?h".to_string() } else { "?g".to_string() }; out.push(Elem::Graph { g: g2, bgp: bgp.clone() }); }
        out.push(Elem::Graph { g, bgp }); }
    if cfg_bits & 8192 != 0 && depth == 0 && r.chance(1, 2) {
        // two UNIONs whose second branches leave the shared variable ?a unbound: a join both of whose inputs hold rows without the join key
        let (p1, p2) = (v.p(r), v.p(r));
        out.push(Elem::Union(vec![Elem::Bgp(vec![TP { s: "?a".into(), p: p1.clone(), o: "?b".into() }])], vec![Elem::Bgp(vec![TP { s: "?c".into(), p: p1, o: "?b".into() }])]));
        out.push(Elem::Union(vec![Elem::Bgp(vec![TP { s: "?a".into(), p: p2.clone(), o: "?d".into() }])], vec![Elem::Bgp(vec![TP { s: "?c".into(), p: p2, o: "?d".into() }])]));
    }
    if cfg_bits & 4 != 0 && depth == 0 && r.chance(1, 2) { let ka = 1 + r.usize(2); let kb = 1 + r.usize(2); out.push(Elem::Union(vec![Elem::Bgp(gen_bgp(r, v, &vars, ka, 0))], vec![Elem::Bgp(gen_bgp(r, v, &vars, kb, 1))])); }
    if cfg_bits & 8 != 0 && !mv.is_empty() && r.chance(1, 2) { let x = r.pick(&mv).clone(); let f = match r.below(4) { 0 => format!("{} != {}", x, v.n(r)), 1 => format!("{} = {}", x, v.n(r)), 2 if mv.len() > 1 => format!("{} != {}", x, r.pick(&mv)), _ => format!("{} != \"v1\"", x) }; out.push(Elem::Filter(f)); }
    if cfg_bits & 16 != 0 && !mv.is_empty() && r.chance(1, 2) { let x = r.pick(&mv).clone(); out.push(Elem::Bind { expr: format!("CONCAT({}, \"-x\")", x), var: "?bound".to_string() }); }
    if cfg_bits & 32 != 0 && r.chance(1, 2) { let var = if r.chance(2, 3) && !mv.is_empty() { r.pick(&mv).clone() } else { "?val".to_string() }; let vals = (0..(1 + r.usize(3))).map(|_| if r.chance(1, 5) { None } else { Some(v.n(r)) }).collect(); out.push(Elem::Values { var, vals }); }
    if cfg_bits & 512 != 0 && mv.len() >= 2 && r.chance(1, 2) { let a = mv[0].clone(); let b = mv[1].clone(); let rows = (0..(1 + r.usize(3))).map(|_| vec![if r.chance(1, 4) { None } else { Some(v.n(r)) }, if r.chance(1, 4) { None } else { Some(v.n(r)) }]).collect(); out.push(Elem::ValuesN { vars: vec![a, b], rows }); }
    if cfg_bits & 1024 != 0 && r.chance(1, 2) { let g = if r.chance(1, 2) { "?g".to_string() } else { format!("<http://e/g{}>", r.below(3)) }; let kk = 1 + r.usize(2); let b = gen_bgp(r, v, &vars, kk, 0); let bv = vars_of(&b); if !bv.is_empty() { let x = r.pick(&bv).clone(); let f = format!("{} != {}", x, v.n(r)); out.push(Elem::GraphF { g, bgp: b, filter: f }); } }
    if cfg_bits & 64 != 0 && depth == 0 && r.chance(1, 2) { let ks = 1 + r.usize(2); let body = vec![Elem::Bgp(gen_bgp(r, v, &vars, ks, 0))]; let bv = match &body[0] { Elem::Bgp(b) => vars_of(b), _ => vec![] }; if !bv.is_empty() { let n = 1 + r.usize(bv.len()); let pv: Vec<String> = bv.into_iter().filter(|x| x != "?pv").take(n).collect(); if !pv.is_empty() { let order = r.chance(1, 2); out.push(Elem::Sub { distinct: r.chance(1, 2), vars: pv, body, order, limit: if order && r.chance(1, 2) { Some(1 + r.usize(4)) } else { None } }); } } }
    out
}
fn all_vars(es: &[Elem], out: &mut Vec<String>) {
    for e in es { match e {
        Elem::Bgp(b) => out.extend(vars_of(b)), Elem::Graph { g, bgp } => { if g.starts_with('?') { out.push(g.clone()); } out.extend(vars_of(bgp)); }
        Elem::ValuesN { vars, .. } => out.extend(vars.iter().cloned()), Elem::GraphF { g, bgp, .. } => { if g.starts_with('?') { out.push(g.clone()); } out.extend(vars_of(bgp)); }
        Elem::Union(a, b) => { all_vars(a, out); all_vars(b, out); } Elem::Bind { var, .. } => out.push(var.clone()), Elem::Values { var, .. } => out.push(var.clone()), Elem::Sub { vars, .. } => out.extend(vars.iter().cloned()), Elem::Filter(_) => {}
    } }
}

impl Prop for C02 {
    type Case = PlanCase;
    fn id(&self) -> &'static str { "C02" }
    fn expected_counters(&self) -> Vec<&'static str> { vec!["fault.statistics_fresh", "fault.statistics_stale", "fault.statistics_empty", "fault.statistics_adversarial", "fault.plan_all_bind_joins", "fault.plan_all_hash_joins", "fault.plan_all_nested_loop_joins", "fault.plan_mixed_joins", "fault.plan_scan_kind_swapped", "fault.bgp_permuted", "probe.quads_inserted_and_deleted_before_the_queries", "probe.intermediate_result_over_64_rows"] }
    fn budget(&self, tier: Tier) -> Budget { match tier { Tier::Quick => Budget { runs: 3000, wall_s: 60, recheck: 20 }, Tier::Thorough => Budget { runs: 150_000, wall_s: 1000, recheck: 60 } } }
    fn hash_seed(&self, c: &PlanCase) -> u64 { c.hash_seed }
    fn gen(&self, seed: u64, _i: u64, tier: Tier) -> PlanCase {
        let mut r = Rng::sub(seed, "workload"); let mut cfg = Rng::sub(seed, "swarm"); let mut vr = Rng::sub(seed, "variants");
        let big = cfg.chance(1, 5);
        let dense = !big && cfg.chance(1, 2); // few terms, many quads: most patterns have answers
        let v = Voc { nn: if big { 14 } else if dense { 2 + r.below(2) } else { 3 + r.below(6) }, np: if dense { 2 } else { 2 + r.below(3) } };
        let nq = if big { 150 + r.usize(250) } else if dense { 15 + r.usize(30) } else { 5 + r.usize(70) };
        let mut quads = vec![];
        let bits = cfg.next();
        let graph_terms = bits & 4096 != 0;
        for _ in 0..nq {
            // with `graph_terms`, some subjects and objects are IRIs that name graphs (g0..g2 may exist as graphs, g3 never does)
            let s = if graph_terms && r.chance(1, 8) { format!("http://e/g{}", r.below(4)) } else { format!("http://e/n{}", r.below(v.nn)) }; let p = format!("http://e/p{}", r.below(v.np));
            let o = match r.below(8) { 0 => format!("v{}", r.below(3)), 1 if graph_terms => format!("http://e/g{}", r.below(4)), _ => format!("http://e/n{}", r.below(v.nn)) };
            let g = if r.chance(1, 4) { Some(format!("http://e/g{}", r.below(3))) } else { None };
            quads.push((s.clone(), p.clone(), o.clone(), g));
            if r.chance(1, 12) { quads.push((s, p, o, Some(format!("http://e/g{}", r.below(3))))); } // the same triple in several graphs
        }
        if cfg.chance(1, 2) { for _ in 0..(3 + r.usize(12)) { quads.push((format!("http://e/n{}", r.below(v.nn)), "http://e/num".to_string(), format!("{}", r.below(10)), if r.chance(1, 5) { Some(format!("http://e/g{}", r.below(3))) } else { None })); } }
        let empty_graphs = if r.chance(1, 3) { vec!["http://e/gempty".to_string()] } else { vec![] };
        let stale_extra = (0..r.usize(30)).map(|_| (format!("http://e/n{}", r.below(v.nn)), format!("http://e/p{}", r.below(v.np + 1)), format!("http://e/n{}", r.below(v.nn)))).collect();
        // the mirrored-UNION shape multiplies intermediate results: only over small, sparse datasets
        let body = gen_group(&mut r, if big || dense { bits & !8192 } else { bits }, &v, 0);
        let mut av = vec![]; all_vars(&body, &mut av); av.sort(); av.dedup();
        let plain = cfg.chance(1, 2);
        let nsel = 1 + r.usize(av.len().max(1)); let mut vars: Vec<String> = av.clone(); r.shuffle(&mut vars); vars.truncate(if plain { av.len() } else { nsel }); vars.sort();
        if vars.is_empty() { vars.push("?a".into()); }
        let order = !plain && r.chance(1, 2);
        let agg = if !plain && !order && r.chance(1, 3) && av.len() >= 2 { if av.contains(&"?n".to_string()) && av[0] != "?n" { Some((av[0].clone(), r.pick(&["SUM", "AVG", "MIN", "MAX", "COUNT"]).to_string(), "?n".to_string())) } else { Some((av[0].clone(), r.pick(&["COUNT", "COUNT", "MIN", "MAX"]).to_string(), av[1].clone())) } } else { None };
        let use_from = !plain && r.chance(1, 6);
        let query = QSpec { vars, distinct: !plain && r.chance(1, 3), body, order, limit: if order && r.chance(1, 2) { Some(1 + r.usize(6)) } else { None },
            from: if use_from { (0..(1 + r.usize(2))).map(|_| format!("http://e/g{}", r.below(3))).collect() } else { vec![] }, from_named: if use_from && r.chance(1, 2) { vec![format!("http://e/g{}", r.below(3))] } else { vec![] }, agg };
        let nvar = if tier == Tier::Quick { 8 + vr.usize(6) } else { 12 + vr.usize(12) };
        let variants = (0..nvar).map(|i| Variant { perm_seed: if i % 3 == 2 { 0 } else { vr.next() | 1 }, stats: vr.below(4) as u8, plan_mode: if plain && i % 2 == 1 { 1 + vr.below(5) as u8 } else { 0 }, plan_seed: vr.next(), pool: *vr.pick(&[1, 2, 3, 4, 8, 16, 16, 67, 128, 300]), rayon_seed: vr.next(), hash_seed: vr.next() }).collect();
        let deleted = if cfg.chance(1, 3) { (0..(2 + r.usize(12))).map(|_| (format!("http://e/n{}", r.below(v.nn)), format!("http://e/p{}", r.below(v.np)), format!("http://e/n{}", r.below(v.nn)), if r.chance(1, 4) { Some(format!("http://e/g{}", r.below(3))) } else { None })).collect() } else { vec![] };
        PlanCase { hash_seed: Rng::sub(seed, "hash").next(), quads, empty_graphs, stale_extra, stale_missing: r.usize(20), query, variants, deleted }
    }
    fn exec(&self, c: &PlanCase, ctx: &mut Ctx) -> Option<Violation> {
        let mut db = SparqlDatabase::new();
        for (s, p, o, g) in &c.quads { match g { None => db.add_triple_parts(s, p, o), Some(g) => { let lit = !o.starts_with("http://"); db.add_quad_parts(&format!("<{}>", s), &format!("<{}>", p), &if lit { format!("\"{}\"", o) } else { format!("<{}>", o) }, g); } } }
        for g in &c.empty_graphs { let id = db.dictionary.write().unwrap().encode(g); db.dataset_index.create_graph(GraphId::Named(id)); }
        // a history: some quads are added and deleted again (through the store API), unless the dataset also holds them for good
        if !c.deleted.is_empty() {
            let keep: std::collections::BTreeSet<&(String, String, String, Option<String>)> = c.quads.iter().collect();
            for q in c.deleted.iter().filter(|q| !keep.contains(q)) {
                let (s, p, o, g) = q;
                match g { None => db.add_triple_parts(s, p, o), Some(g) => { let lit = !o.starts_with("http://"); db.add_quad_parts(&format!("<{}>", s), &format!("<{}>", p), &if lit { format!("\"{}\"", o) } else { format!("<{}>", o) }, g); } }
            }
            let ids: Vec<Quad> = { let d = db.dictionary.read().unwrap(); c.deleted.iter().filter(|q| !keep.contains(q)).filter_map(|(s, p, o, g)| Some(Quad { subject: *d.string_to_id.get(s)?, predicate: *d.string_to_id.get(p)?, object: *d.string_to_id.get(o)?, graph: match g { None => GraphId::Default, Some(g) => GraphId::Named(*d.string_to_id.get(g)?) } })).collect() };
            for q in &ids { db.dataset_index.delete_quad(q); }
            ctx.hit("probe.quads_inserted_and_deleted_before_the_queries");
        }
        let fresh = { db.invalidate_stats_cache(); db.get_or_build_stats() };
        // stale statistics: gathered on a dataset that had extra quads and lacked some of the current ones
        let stale = { let mut tmp = db.clone(); tmp.cached_stats = None; for (s, p, o) in &c.stale_extra { tmp.add_triple_parts(s, p, o); } let all = tmp.dataset_index.all_quads(); for q in all.iter().take(c.stale_missing) { tmp.dataset_index.delete_quad(q); } tmp.get_or_build_stats() };
        let adversarial = |seed: u64, db: &SparqlDatabase| -> Arc<DatabaseStats> { let mut r = Rng::new(seed); let mut st = DatabaseStats::new(); st.total_triples = *r.pick(&[0u64, 1, 1_000_000_000_000]); let n = db.dictionary.read().unwrap().next_id; for id in 0..n { st.predicate_cardinalities.insert(id, r.below(3) * 1_000_000_000); st.predicate_distinct_subjects.insert(id, r.below(2)); st.predicate_distinct_objects.insert(id, r.below(3) * 1_000_000); st.subject_cardinalities.insert(id, r.below(1_000_000)); st.object_cardinalities.insert(id, 0); } st.distinct_subjects = r.below(2); st.distinct_objects = u64::MAX / 4; Arc::new(st) };
        let raw_before: (std::collections::BTreeSet<Quad>, Vec<GraphId>) = (db.dataset_index.all_quads().into_iter().collect(), db.dataset_index.named_graphs());
        // ---- baseline: text as generated, fresh statistics, the optimizer's own plan, pool of one
        let q0 = render(&c.query, 0);
        rayon::sim_configure(0, 1);
        db.cached_stats = Some(fresh.clone());
        let base = match guard(|| execute_sparql_query(&q0, &mut db)) { Ok(Ok(r)) => r, Ok(Err(e)) => { ctx.hit("query_outside_supported_fragment_skipped"); ev!(ctx.log, "rejected: {} :: {}", q0, e.lines().next().unwrap_or("")); rayon::sim_reset(); return None; } Err((loc, msg)) => { rayon::sim_reset(); return Some(Violation::new("unwind", format!("baseline execution of {:?} unwound at {}: {}", q0, loc, msg))); } };
        let norm = |rows: &Vec<Vec<String>>| { let mut v = rows.clone(); v.sort(); v };
        let base_n = norm(&base);
        ev!(ctx.log, "q0={} rows={}", q0, base.len());
        let plain = c.query.agg.is_none() && !c.query.order && !c.query.distinct && c.query.limit.is_none() && c.query.from.is_empty() && c.query.from_named.is_empty();
        // binding-level baseline for plan rewrites
        let mut plan_base: Option<Vec<Vec<(String, String)>>> = None;
        let decode_rows = |db: &SparqlDatabase, b: Vec<HashMap<String, u32>>| -> Vec<Vec<(String, String)>> { let mut v: Vec<Vec<(String, String)>> = b.into_iter().map(|r| { let mut x: Vec<(String, String)> = r.into_iter().map(|(k, id)| (k, db.decode_any(id).unwrap_or_default())).collect(); x.sort(); x }).collect(); v.sort(); v };
        let mut kinds: BTreeMap<&'static str, u64> = BTreeMap::new();
        for (vi, va) in c.variants.iter().enumerate() {
            let stats = match va.stats { 0 => fresh.clone(), 1 => stale.clone(), 2 => Arc::new(DatabaseStats::new()), _ => adversarial(va.plan_seed, &db) };
            *kinds.entry(match va.stats { 0 => "fault.statistics_fresh", 1 => "fault.statistics_stale", 2 => "fault.statistics_empty", _ => "fault.statistics_adversarial" }).or_insert(0) += 1;
            let text = render(&c.query, va.perm_seed);
            let res: Result<Result<(Vec<Vec<String>>, Option<Vec<Vec<(String, String)>>>, Option<Vec<Vec<(String, String)>>>, String), String>, (String, String)> = {
                let dbr = &mut db; let text2 = text.clone(); let stats2 = stats.clone(); let (pm, ps, pool, rs) = (va.plan_mode, va.plan_seed, va.pool, va.rayon_seed); let need_base = plan_base.is_none();
                kolibrie_verif_rt::hash::with_hash_seed(va.hash_seed, move || guard(move || {
                    rayon::sim_configure(rs, pool);
                    dbr.cached_stats = Some(stats2.clone());
                    let out = if pm == 0 || !plain {
                        execute_sparql_query(&text2, dbr).map(|r| (r, None, None, String::new()))
                    } else {
                        // the public pieces the executor itself uses, with the physical plan rewritten in between
                        let parsed = parse_combined_query(&text2).map_err(|e| format!("parse: {:?}", e))?;
                        let (_, combined) = parsed;
                        let Some(SparqlOperation::Select(sel)) = combined.sparql.as_ref() else { return Err("not a select".into()) };
                        let prefixes = HashMap::new();
                        let logical = build_logical_plan_from_group(&sel.pattern, &prefixes, dbr)?;
                        let dataset = DatasetView::from_database(dbr);
                        // in half of the rewritten variants the plan is the one the same optimizer object returns when asked a second
                        // time (its memo table is warm then): that is one more plan the optimizer "happens to choose"
                        let mut opt = Streamertail::with_cached_stats_and_dataset(stats2.clone(), dataset.clone());
                        let first = opt.find_best_plan(&logical);
                        let plan = if ps & 2 != 0 { opt.find_best_plan(&logical) } else { first };
                        let b0 = if need_base { let raw = ExecutionEngine::execute_with_ids_and_dataset(&plan, dbr, &dataset); Some(decode_rows(dbr, raw)) } else { None };
                        let mut pr = Rng::new(ps);
                        let p2 = rewrite(&plan, pm, &mut pr);
                        let raw = ExecutionEngine::execute_with_ids_and_dataset(&p2, dbr, &dataset); let b = decode_rows(dbr, raw);
                        Ok((vec![], Some(b), b0, format!("{:?}", p2).chars().take(400).collect()))
                    };
                    rayon::sim_reset();
                    out
                }))
            };
            let st = rayon::sim_stats(); let _ = st;
            match res {
                Err((loc, msg)) => { rayon::sim_reset(); return Some(Violation::new("unwind", format!("variant {} ({:?}) of {:?} unwound at {}: {}", vi, va, text, loc, msg.chars().take(200).collect::<String>()))); }
                Ok(Err(e)) => { rayon::sim_reset(); return Some(Violation::new("variant-rejected", format!("variant {} of an accepted query was rejected: {:?} :: {}", vi, text, e.lines().next().unwrap_or("")))); }
                Ok(Ok((rows, bind, b0, plan_dbg))) => {
                    if let Some(b0) = b0 { plan_base = Some(b0); }
                    if let Some(b) = bind {
                        *kinds.entry(match va.plan_mode { 1 => "fault.plan_all_bind_joins", 2 => "fault.plan_all_hash_joins", 3 => "fault.plan_all_nested_loop_joins", 4 => "fault.plan_mixed_joins", _ => "fault.plan_scan_kind_swapped" }).or_insert(0) += 1;
                        let pb = plan_base.as_ref().unwrap();
                        ev!(ctx.log, "v{} plan_mode={} stats={} pool={} -> {} bindings", vi, va.plan_mode, va.stats, va.pool, b.len());
                        if &b != pb { return Some(Violation::new("plan-rewrite-changes-answers", format!("query {:?}: the optimizer's plan gives {} solutions, the same plan with join algorithms / scans reassigned (mode {}, statistics {}, pool {}) gives {}; e.g. only-in-original {:?}, only-in-rewritten {:?}; plan {}", text, pb.len(), va.plan_mode, va.stats, va.pool, b.len(), pb.iter().find(|x| !b.contains(x)), b.iter().find(|x| !pb.contains(x)), plan_dbg))); }
                    } else {
                        ev!(ctx.log, "v{} perm={} stats={} pool={} -> {} rows", vi, va.perm_seed != 0, va.stats, va.pool, rows.len());
                        if va.perm_seed != 0 { *kinds.entry("fault.bgp_permuted").or_insert(0) += 1; }
                        let got = norm(&rows);
                        if got != base_n { return Some(Violation::new("answers-depend-on-plan", format!("baseline {:?} returns {} rows; variant {:?} (statistics {}, pool {}, hash seed changed) returns {}; only-in-baseline {:?}; only-in-variant {:?}", q0, base_n.len(), text, ["fresh", "stale", "empty", "adversarial"][va.stats as usize % 4], va.pool, got.len(), base_n.iter().find(|x| !got.contains(x)), got.iter().find(|x| !base_n.contains(x))))); }
                        if c.query.order && rows != base && c.query.limit.is_none() { // identical multiset under a total ORDER BY must be the identical sequence
                            return Some(Violation::new("order-by-sequence-differs", format!("ORDER BY over all projected variables: baseline and variant return the same rows in a different order for {:?}", text)));
                        }
                    }
                }
            }
            let after: (std::collections::BTreeSet<Quad>, Vec<GraphId>) = (db.dataset_index.all_quads().into_iter().collect(), db.dataset_index.named_graphs());
            if after != raw_before { return Some(Violation::new("query-modified-data", format!("executing {:?} changed the stored quads or the graph catalog", text))); }
        }
        for (k, n) in kinds { ctx.count(k, n); }
        if base.len() > 64 { ctx.hit("probe.intermediate_result_over_64_rows"); }
        if !base.is_empty() { ctx.nontrivial(kolibrie_verif_rt::log::fnv(&format!("{:?}{}", c.quads.len(), q0))); }
        ctx.state(kolibrie_verif_rt::log::fnv(&format!("{:?}", base_n)));
        ctx.count("variants_executed", c.variants.len() as u64);
        if plain { ctx.hit("class.plain_group_with_plan_rewrites"); } else { ctx.hit("class.modifiers_end_to_end"); }
        None
    }
    fn shrink(&self, c: &PlanCase) -> Vec<PlanCase> {
        let mut out = vec![];
        for v in shrink_vec(&c.variants) { if !v.is_empty() { out.push(PlanCase { variants: v, ..c.clone() }); } }
        for q in shrink_vec(&c.quads).into_iter().take(60) { out.push(PlanCase { quads: q, ..c.clone() }); }
        for b in shrink_vec(&c.query.body) { if !b.is_empty() { let mut q = c.query.clone(); q.body = b; out.push(PlanCase { query: q, ..c.clone() }); } }
        for (i, e) in c.query.body.iter().enumerate() {
            let mut push = |ne: Elem| { let mut q = c.query.clone(); q.body[i] = ne; out.push(PlanCase { query: q, ..c.clone() }); };
            match e {
                Elem::Bgp(b) if b.len() > 1 => for x in shrink_vec(b) { if !x.is_empty() { push(Elem::Bgp(x)); } },
                Elem::Graph { g, bgp } if bgp.len() > 1 => for x in shrink_vec(bgp) { if !x.is_empty() { push(Elem::Graph { g: g.clone(), bgp: x }); } },
                Elem::Union(a, b) => { push(Elem::Union(a.clone(), vec![Elem::Bgp(vec![])])); for x in a { push(x.clone()); } for x in b { push(x.clone()); } }
                Elem::ValuesN { vars, rows } if rows.len() > 1 => for x in shrink_vec(rows) { if !x.is_empty() { push(Elem::ValuesN { vars: vars.clone(), rows: x }); } },
                Elem::GraphF { g, bgp, .. } => push(Elem::Graph { g: g.clone(), bgp: bgp.clone() }),
                Elem::Values { var, vals } if vals.len() > 1 => for x in shrink_vec(vals) { if !x.is_empty() { push(Elem::Values { var: var.clone(), vals: x }); } },
                _ => {}
            }
        }
        if c.query.distinct || c.query.order || c.query.limit.is_some() || c.query.agg.is_some() { let mut q = c.query.clone(); q.distinct = false; q.order = false; q.limit = None; q.agg = None; out.push(PlanCase { query: q, ..c.clone() }); }
        if !c.query.from.is_empty() || !c.query.from_named.is_empty() { let mut q = c.query.clone(); q.from.clear(); q.from_named.clear(); out.push(PlanCase { query: q, ..c.clone() }); }
        for (i, v) in c.variants.iter().enumerate() {
            let mut push = |nv: Variant| { let mut vs = c.variants.clone(); vs[i] = nv; out.push(PlanCase { variants: vs, ..c.clone() }); };
            if v.pool != 1 { push(Variant { pool: 1, rayon_seed: 0, ..v.clone() }); }
            if v.stats != 0 { push(Variant { stats: 0, ..v.clone() }); }
            if v.perm_seed != 0 { push(Variant { perm_seed: 0, ..v.clone() }); }
            if v.plan_mode != 0 { push(Variant { plan_mode: 0, ..v.clone() }); }
        }
        if !c.stale_extra.is_empty() { out.push(PlanCase { stale_extra: vec![], stale_missing: 0, ..c.clone() }); }
        out
    }
    fn rule(&self) -> String { "A case is one (dataset, query) pair - default + named graphs (incl. empty catalogued ones, triples repeated across graphs), query from a grammar of the supported fragment (BGPs of 1-5 patterns in chain/star/cycle/Cartesian shapes, GRAPH <g>/?g, UNION, group-scoped FILTER, BIND(CONCAT), VALUES with UNDEF, sub-SELECT with DISTINCT/ORDER BY/LIMIT, FROM/FROM NAMED, GROUP BY + COUNT/MIN/MAX, DISTINCT/ORDER BY/LIMIT under a total order) - executed as a baseline and 8-24 variants drawn from: permutation of the patterns inside every BGP, fresh/stale/empty/adversarial statistics in cached_stats, every join node reassigned (all-bind, all-hash, all-nested-loop, mixed), table/index scans swapped, star joins expanded, simulated pool size/splits/job order, hash seed. Oracle: the multiset of decoded rows equals the baseline's. Non-trivial = baseline answer non-empty; distinct = hash of (dataset size, query text). Permuted renderings also shuffle adjacent pattern blocks (BGP / GRAPH); look-alike GRAPH blocks under two graph variables, graph IRIs as subjects / objects, the graph variable inside its own block or bound by the enclosing group; half of the rewritten variants use the plan the same optimizer object returns when asked a second time (warm memo); pools up to 300 workers. A third of the cases insert and delete a few quads through the store API before the first query.".into() }
    fn assumptions(&self) -> Vec<String> { vec!["metamorphic: whether the common answer is the right one is C01, which this family does not decide".into(), "FILTER/BIND mention only variables of their own group (the property's quantifier)".into(), "plan rewrites are applied to plain group patterns through the public pieces the executor uses (parse_combined_query, build_logical_plan_from_group, Streamertail::find_best_plan, ExecutionEngine::execute_with_ids_and_dataset) and compared at binding level".into()] }
    fn real_vs_stub(&self) -> serde_json::Value { serde_json::json!({"real": ["parser", "build_logical_plan_from_group", "Streamertail optimizer + cost estimator", "ExecutionEngine (bind / hash / nested-loop joins, star join, scans, filter, bind, values, subquery, union, graph)", "finalize_select / aggregates", "DatabaseStats::gather"], "simulated": ["rayon (sim-rayon: pool size, job cuts, order)", "cached statistics (fresh / stale / empty / adversarial installed through the public field)", "physical plan choice (rewritten from outside)", "hash keys per variant"], "not_run": []}) }
}

fn pick_join(l: PhysicalOperator, r: PhysicalOperator, mode: u8, rng: &mut Rng) -> PhysicalOperator {
    use PhysicalOperator as P;
    let m = if mode >= 4 { 1 + rng.below(3) as u8 } else { mode };
    match m { 1 => P::bind_join(l, r), 2 => P::hash_join(l, r), _ => P::nested_loop_join(l, r) }
}
/// reassign every join node among the three algorithms the optimizer enumerates; expand star joins; mode 5 swaps scan kinds
pub fn rewrite(p: &PhysicalOperator, mode: u8, rng: &mut Rng) -> PhysicalOperator {
    use PhysicalOperator as P;
    match p {
        P::BindJoin { left, right } | P::HashJoin { left, right } | P::NestedLoopJoin { left, right } => {
            let l = rewrite(left, mode, rng); let r = rewrite(right, mode, rng);
            if mode == 5 { match p { P::BindJoin { .. } => P::bind_join(l, r), P::HashJoin { .. } => P::hash_join(l, r), _ => P::nested_loop_join(l, r) } } else { pick_join(l, r, mode, rng) }
        }
        P::Filter { input, condition } => P::filter(rewrite(input, mode, rng), condition.clone()),
        P::Projection { input, variables } => P::projection(rewrite(input, mode, rng), variables.clone()),
        P::Union { branches } => P::union(branches.iter().map(|b| rewrite(b, mode, rng)).collect()),
        P::Graph { input, graph } => P::graph(rewrite(input, mode, rng), graph.clone()),
        P::Subquery { inner, spec } => P::subquery(rewrite(inner, mode, rng), spec.clone()),
        P::Bind { input, function_name, arguments, output_variable } => P::Bind { input: Box::new(rewrite(input, mode, rng)), function_name: function_name.clone(), arguments: arguments.clone(), output_variable: output_variable.clone() },
        P::StarJoin { patterns, .. } if mode != 5 => { let mut it = patterns.iter(); let mut acc = P::index_scan(it.next().unwrap().clone()); for pt in it { acc = pick_join(acc, P::index_scan(pt.clone()), mode, rng); } acc }
        P::TableScan { pattern } if mode == 5 => P::quad_index_scan(pattern.clone()),
        P::IndexScan { pattern } if mode == 5 => P::quad_table_scan(pattern.clone()),
        other => other.clone(),
    }
}
