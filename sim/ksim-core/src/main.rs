//! ksim-core: simulation engines that need only `shared` + `datalog` (sddsim C07, hybsim C08, dlsim C05 C12 C19).
kolibrie_verif_rt::interpose!();
mod sddsim;
mod hybsim;
mod dlsim;
use kolibrie_verif_rt::harness::{self, Tier};

fn usage() -> ! { eprintln!("usage: ksim-core <C07|C08|C05|C12|C19> <quick|thorough> | replay <file> | one <ID> <run_index> [tier]"); std::process::exit(2) }
fn tier(s: &str) -> Tier { match s { "quick" => Tier::Quick, "thorough" => Tier::Thorough, _ => usage() } }
macro_rules! dispatch {
    ($id:expr, $f:ident $(, $a:expr)*) => { match $id { "C07" => harness::$f(sddsim::C07 $(, $a)*), "C08" => harness::$f(hybsim::C08 $(, $a)*), "C05" => harness::$f(dlsim::C05 $(, $a)*), "C19" => harness::$f(dlsim::C19 $(, $a)*), _ => usage() } };
}
fn main() {
    let args: Vec<String> = std::env::args().collect();
    if args.len() < 3 { usage(); }
    match args[1].as_str() {
        "replay" | "replay-child" => {
            let txt = std::fs::read_to_string(&args[2]).unwrap_or_else(|e| { eprintln!("cannot read {}: {}", args[2], e); std::process::exit(2) });
            let v: serde_json::Value = serde_json::from_str(&txt).unwrap_or_else(|e| { eprintln!("bad replay file: {}", e); std::process::exit(2) });
            let id = v["property"].as_str().unwrap_or("").to_string();
            dispatch!(id.as_str(), replay_file, &args[2])
        }
        "one" => { if args.len() < 4 { usage(); } let t = if args.len() > 4 { tier(&args[4]) } else { Tier::Quick }; dispatch!(args[2].as_str(), run_one, args[3].parse().unwrap(), t) }
        id => { let t = tier(&args[2]); dispatch!(id, run_check, t) }
    }
}
