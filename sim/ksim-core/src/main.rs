kolibrie_verif_rt::interpose!();
fn main() { println!("stub"); }
