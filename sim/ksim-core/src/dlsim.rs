//! dlsim: Datalog engines under the simulator. C05 (materialisation = least model under every strategy, order, pool).
use kolibrie_verif_rt::ev;
use kolibrie_verif_rt::harness::*;
use kolibrie_verif_rt::rng::Rng;
use datalog::reasoning::Reasoner;
use models::datalog::{self as dm, Fact, Filter, Pat};
use serde::{Deserialize, Serialize};
use shared::provenance::BooleanProvenance;
use shared::rule::{FilterCondition, Rule};
use shared::terms::Term;
use std::collections::BTreeSet;

pub fn term_of(x: &str, r: &Reasoner) -> Term { if dm::is_var(x) { Term::Variable(x[1..].to_string()) } else { Term::Constant(r.dictionary.write().unwrap().encode(x)) } }
pub fn to_rule(ru: &dm::Rule, r: &Reasoner) -> Rule {
    let pat = |p: &Pat| (term_of(&p.0, r), term_of(&p.1, r), term_of(&p.2, r));
    Rule { premise: ru.prem.iter().map(pat).collect(), negative_premise: ru.neg.iter().map(pat).collect(),
        filters: ru.filt.iter().map(|f| FilterCondition { variable: f.var.clone(), operator: f.op.clone(), value: f.val.clone() }).collect(), conclusion: ru.conc.iter().map(pat).collect() }
}
pub fn build(facts: &[Fact], rules: &[dm::Rule]) -> Reasoner {
    let mut r = Reasoner::new();
    for f in facts { r.add_abox_triple(&f.0, &f.1, &f.2); }
    for ru in rules { let rule = to_rule(ru, &r); r.add_rule(rule); }
    r
}
pub fn dump(r: &Reasoner) -> BTreeSet<Fact> {
    let d = r.dictionary.read().unwrap();
    r.dataset_index.query(None, None, None).iter().map(|t| (d.decode(t.subject).unwrap_or("?").to_string(), d.decode(t.predicate).unwrap_or("?").to_string(), d.decode(t.object).unwrap_or("?").to_string())).collect()
}

#[derive(Serialize, Deserialize, Clone, Debug)]
pub struct Perturb { pub strategy: u8, pub pool: usize, pub rayon_seed: u64, pub order_seed: u64 }
#[derive(Serialize, Deserialize, Clone, Debug)]
pub struct DlCase { pub hash_seed: u64, pub facts: Vec<Fact>, pub rules: Vec<dm::Rule>, pub runs: Vec<Perturb>,
    /// rules with unsafe negation that the client offers through try_add_rule and that must be refused and take no part
    #[serde(default)] pub rejected: Vec<dm::Rule> }
pub const STRATEGIES: [&str; 4] = ["naive", "semi-naive", "semi-naive-parallel", "provenance-boolean"];

pub struct C05;

fn run_strategy(r: &mut Reasoner, s: u8) -> usize {
    match s { 0 => r.infer_new_facts_naive().len(), 1 => r.infer_new_facts_semi_naive().len(), 2 => r.infer_new_facts_semi_naive_parallel().len(), _ => r.infer_new_facts_with_provenance(BooleanProvenance).0.len() }
}
/// the shape on which the parallel strategy is explored at random (see DESIGN 6.4 / known findings)
pub fn parallel_shape(rules: &[dm::Rule]) -> bool { rules.iter().all(|r| r.prem.len() <= 2 && r.filt.is_empty() && r.neg.is_empty() && r.prem.iter().all(|p| !dm::is_var(&p.1))) }

pub fn gen_program(r: &mut Rng, cfg: &mut Rng, big: bool) -> (Vec<Fact>, Vec<dm::Rule>) {
    let nn = 3 + r.usize(5); let np = 2 + r.usize(3);
    let node = |r: &mut Rng| format!("n{}", r.usize(nn));
    let numeric_share = cfg.below(4); // 0: none
    let mut facts: Vec<Fact> = vec![];
    let nf = if big { 1050 + r.usize(400) } else { 3 + r.usize(if cfg.chance(1, 3) { 58 } else { 18 }) };
    for i in 0..nf {
        let o = if numeric_share > 0 && r.below(6) < numeric_share { format!("{}", r.below(20)) } else if big { format!("n{}", r.usize(nn + nf * 2)) } else { node(r) };
        let s = if big { format!("n{}", r.usize(nn + nf * 2)) } else { node(r) };
        let p = if big && i % 10 != 0 { "p0".to_string() } else { format!("p{}", r.usize(np)) };
        facts.push((s, p, o));
    }
    let vars = ["?x", "?y", "?z", "?w", "?u"];
    if big {
        // > 1000 facts on one predicate so perform_hash_join_for_rules really splits; rules are sparse joins (no Cartesian products)
        let mut rules = vec![dm::Rule { prem: vec![("?x".into(), "p0".into(), "?y".into()), ("?y".into(), format!("p{}", r.usize(np)), "?z".into())], neg: vec![], conc: vec![("?x".into(), format!("p{}", np), "?z".into())], filt: vec![] }];
        if r.chance(1, 2) { rules.push(dm::Rule { prem: vec![("?x".into(), format!("p{}", np), "?y".into())], neg: vec![], conc: vec![("?y".into(), format!("q{}", r.usize(2)), "?x".into())], filt: vec![] }); }
        if r.chance(1, 3) { rules.push(dm::Rule { prem: vec![("?x".into(), "p0".into(), "?y".into())], neg: vec![], conc: vec![("?x".into(), "big".into(), node(r))], filt: vec![Filter { var: "y".into(), op: ">".into(), val: format!("{}", r.below(20)) }] }); }
        return (facts, rules);
    }
    let nrules = 1 + r.usize(if cfg.chance(1, 3) { 6 } else { 3 });
    let with_neg = cfg.chance(1, 6);
    // a variable predicate would match the negative stratum's own conclusions: such programs are not stratified in one top stratum
    let allow_varpred = cfg.chance(1, 3) && !with_neg; let allow_filter = cfg.chance(1, 3); let max_prem = 1 + cfg.usize(4);
    let mut rules: Vec<dm::Rule> = vec![];
    for ri in 0..nrules {
        let k = 1 + r.usize(max_prem);
        let mut prem: Vec<Pat> = vec![]; let mut used: BTreeSet<String> = BTreeSet::new();
        for i in 0..k {
            let mut pick = |r: &mut Rng| -> String { if r.chance(1, 5) { node(r) } else { vars[r.usize(i + 2).min(4)].to_string() } };
            let s = pick(r); let o = pick(r);
            let p = if allow_varpred && r.chance(1, 6) { "?pv".to_string() } else { format!("p{}", r.usize(np)) };
            for t in [&s, &p, &o] { if dm::is_var(t) { used.insert(t.clone()); } }
            prem.push((s, p, o));
        }
        let uv: Vec<String> = used.iter().filter(|v| *v != "?pv").cloned().collect();
        let pickc = |r: &mut Rng| -> String { if uv.is_empty() || r.chance(1, 4) { node(r) } else { r.pick(&uv).clone() } };
        let mut conc: Vec<Pat> = vec![];
        for _ in 0..(1 + r.usize(2)) {
            let cp = if used.contains("?pv") && r.chance(1, 4) { "?pv".to_string() } else { format!("p{}", r.usize(np + 1)) };
            conc.push((pickc(r), cp, pickc(r)));
        }
        let filt = if allow_filter && r.chance(1, 2) && !uv.is_empty() {
            if uv.len() >= 2 && r.chance(1, 4) { let a = r.pick(&uv)[1..].to_string(); let b = r.pick(&uv)[1..].to_string(); vec![Filter { var: a, op: r.pick(&["!=", "="]).to_string(), val: b }] }   // variable against variable (compared by identity)
            else { vec![Filter { var: r.pick(&uv)[1..].to_string(), op: r.pick(&[">", "<", ">=", "<=", "=", "!="]).to_string(), val: format!("{}", r.below(20)) }] }
        } else { vec![] };
        let mut rule = dm::Rule { prem, neg: vec![], conc, filt };
        if with_neg && ri == nrules - 1 && !uv.is_empty() {
            // one top negative stratum: the conclusion predicate occurs in no premise of any rule
            let a = r.pick(&uv).clone(); let b = r.pick(&uv).clone();
            rule.neg = vec![(a, format!("p{}", r.usize(np)), b)];
            for c in rule.conc.iter_mut() { c.1 = "negout".to_string(); }
        }
        rules.push(rule);
    }
    // joins are evaluated by materialising binding sets: keep |facts|^premises bounded so a run stays in the millisecond range
    let maxp = rules.iter().map(|r| r.prem.len()).max().unwrap_or(1);
    let cap = match maxp { 0..=2 => 60, 3 => 22, _ => 12 };
    facts.truncate(cap);
    (facts, rules)
}

impl Prop for C05 {
    type Case = DlCase;
    fn id(&self) -> &'static str { "C05" }
    fn expected_counters(&self) -> Vec<&'static str> { vec!["fault.fact_and_rule_order_permuted", "fault.pool_split_into_several_jobs", "fault.jobs_run_out_of_index_order", "probe.nested_parallel_call", "probe.program_derives_facts", "probe.rule_with_3plus_premises", "probe.over_1000_facts_hash_join_chunks", "probe.negative_stratum", "probe.derivation_deeper_than_128_rounds", "fault.unsafe_rule_refused"] }
    fn budget(&self, tier: Tier) -> Budget { match tier { Tier::Quick => Budget { runs: 4000, wall_s: 60, recheck: 30 }, Tier::Thorough => Budget { runs: 150_000, wall_s: 1000, recheck: 100 } } }
    fn hash_seed(&self, c: &DlCase) -> u64 { c.hash_seed }
    fn gen(&self, seed: u64, _i: u64, tier: Tier) -> DlCase {
        let mut r = Rng::sub(seed, "workload"); let mut cfg = Rng::sub(seed, "swarm"); let mut pr = Rng::sub(seed, "perturb");
        let big = cfg.chance(1, 30);
        let deep = !big && cfg.chance(1, 40);
        let (facts, rules) = if deep {
            // a derivation deeper than any small random program reaches: single-source reachability along a chain of 100-300 edges
            // (as many fixpoint rounds as edges), optionally with a second recursive rule that walks the chain backwards
            let k = *r.pick(&[100usize, 127, 128, 129, 130, 200, 257, 300]);
            let mut f: Vec<Fact> = (0..k).map(|i| (format!("c{}", i), "edge".to_string(), format!("c{}", i + 1))).collect();
            f.push(("c0".into(), "reach".into(), "c0".into()));
            let mut rs = vec![dm::Rule { prem: vec![("?x".into(), "reach".into(), "?y".into()), ("?y".into(), "edge".into(), "?z".into())], neg: vec![], conc: vec![("?x".into(), "reach".into(), "?z".into())], filt: vec![] }];
            if r.chance(1, 2) { f.push((format!("c{}", k), "back".into(), format!("c{}", k))); rs.push(dm::Rule { prem: vec![("?z".into(), "back".into(), "?y".into()), ("?x".into(), "edge".into(), "?y".into())], neg: vec![], conc: vec![("?z".into(), "back".into(), "?x".into())], filt: vec![] }); }
            (f, rs)
        } else { gen_program(&mut r, &mut cfg, big) };
        let big = big || deep;
        let per = if tier == Tier::Quick { 3 } else { 6 };
        let mut runs = vec![];
        for s in 0..4u8 {
            runs.push(Perturb { strategy: s, pool: 1, rayon_seed: 0, order_seed: 0 });
            for _ in 1..(if big { if s == 2 { 1 } else { 2 } } else { per }) { runs.push(Perturb { strategy: s, pool: *pr.pick(&[1, 2, 3, 4, 8, 16, 16, 70, 200]), rayon_seed: pr.next(), order_seed: pr.next() }); }
        }
        let rejected = if !facts.is_empty() && cfg.chance(1, 4) { let f = r.pick(&facts).clone(); vec![dm::Rule { prem: vec![("?x".into(), f.1.clone(), "?y".into())], neg: vec![("?y".into(), f.1.clone(), "?unbound".into())], conc: vec![("?y".into(), f.1.clone(), "?x".into())], filt: vec![] }] } else { vec![] };
        DlCase { hash_seed: Rng::sub(seed, "hash").next(), facts, rules, runs, rejected }
    }
    fn exec(&self, c: &DlCase, ctx: &mut Ctx) -> Option<Violation> {
        if c.rules.iter().any(|r| !dm::is_safe(r)) { ctx.hit("unsafe_program_skipped"); return None; }
        let fset: BTreeSet<Fact> = c.facts.iter().cloned().collect();
        let has_neg = c.rules.iter().any(|r| !r.neg.is_empty());
        let want = if has_neg { dm::stratified_model(&fset, &c.rules) } else { dm::least_model(&fset, &c.rules) };
        ev!(ctx.log, "facts={} rules={} model={} neg={}", fset.len(), c.rules.len(), want.len(), has_neg);
        if c.facts.iter().filter(|f| f.1 == "edge").count() > 128 && want.iter().filter(|f| f.1 == "reach").count() > 129 { ctx.hit("probe.derivation_deeper_than_128_rounds"); }
        let in_shape = parallel_shape(&c.rules);
        for p in &c.runs {
            if has_neg && p.strategy != 3 { continue; } // only the provenance strategy implements a negative stratum
            // fact and rule order perturbation
            let mut facts = c.facts.clone(); let mut rules = c.rules.clone();
            if p.order_seed != 0 { let mut o = Rng::new(p.order_seed); o.shuffle(&mut facts); o.shuffle(&mut rules); ctx.hit("fault.fact_and_rule_order_permuted"); }
            rayon::sim_configure(p.rayon_seed, p.pool);
            let mut re = build(&facts, &rules);
            // a rejected rule (a failed operation of the client) must leave the program as it was
            for rj in &c.rejected { let rule = to_rule(rj, &re); match re.try_add_rule(rule) { Err(_) => ctx.hit("fault.unsafe_rule_refused"), Ok(()) => { rayon::sim_reset(); return Some(Violation::new("unsafe-rule-accepted", format!("try_add_rule accepted a rule whose negative premise uses a variable no positive premise binds: {:?}", rj))); } } }
            let n1 = run_strategy(&mut re, p.strategy);
            let got = dump(&re);
            let st = rayon::sim_stats();
            ctx.count("fault.pool_split_into_several_jobs", st.split_consumes); ctx.count("fault.jobs_run_out_of_index_order", st.out_of_order); ctx.count("sim_rayon_jobs", st.jobs); ctx.count("probe.nested_parallel_call", st.nested);
            ev!(ctx.log, "{} pool={} -> returned {} store {}", STRATEGIES[p.strategy as usize], p.pool, n1, got.len());
            if got != want {
                let missing: Vec<&Fact> = want.difference(&got).take(3).collect(); let extra: Vec<&Fact> = got.difference(&want).take(3).collect();
                let class = if !missing.is_empty() && extra.is_empty() { "derivable-fact-missing" } else if missing.is_empty() { "underivable-fact-present" } else { "model-differs" };
                rayon::sim_reset();
                return Some(Violation::new(&format!("{}:{}", STRATEGIES[p.strategy as usize], class), format!("strategy {} (pool {}, order perturbed: {}) ends with {} facts, the {} has {}; missing e.g. {:?}, not derivable e.g. {:?}", STRATEGIES[p.strategy as usize], p.pool, p.order_seed != 0, got.len(), if has_neg { "stratified model" } else { "least model" }, want.len(), missing, extra)));
            }
            // a second run derives nothing
            let n2 = run_strategy(&mut re, p.strategy);
            let got2 = dump(&re);
            rayon::sim_reset();
            if n2 != 0 || got2 != got { return Some(Violation::new(&format!("{}:second-run-derives", STRATEGIES[p.strategy as usize]), format!("second run of {} returned {} facts and changed the store from {} to {} facts", STRATEGIES[p.strategy as usize], n2, got.len(), got2.len()))); }
            ctx.count("strategy_executions", 1);
            if p.strategy == 2 && !in_shape { ctx.hit("probe.parallel_outside_simple_shape_agreed"); }
        }
        if want.len() > fset.len() { ctx.hit("probe.program_derives_facts"); }
        if c.rules.iter().any(|r| r.prem.len() >= 3) { ctx.hit("probe.rule_with_3plus_premises"); }
        if c.facts.len() > 1000 { ctx.hit("probe.over_1000_facts_hash_join_chunks"); }
        if has_neg { ctx.hit("probe.negative_stratum"); }
        if want.len() >= fset.len() + 2 { ctx.nontrivial(kolibrie_verif_rt::log::fnv(&format!("{:?}{:?}", fset, c.rules))); }
        ctx.state(want.len() as u64 ^ kolibrie_verif_rt::log::fnv(&format!("{:?}", want.iter().next())));
        None
    }
    fn shrink(&self, c: &DlCase) -> Vec<DlCase> {
        let mut out = vec![];
        for rs in shrink_vec(&c.runs) { if !rs.is_empty() { out.push(DlCase { runs: rs, ..c.clone() }); } }
        if !c.rejected.is_empty() { out.push(DlCase { rejected: vec![], ..c.clone() }); }
        for fs in shrink_vec(&c.facts) { out.push(DlCase { facts: fs, ..c.clone() }); }
        for rs in shrink_vec(&c.rules) { if !rs.is_empty() { out.push(DlCase { rules: rs, ..c.clone() }); } }
        for (i, r) in c.rules.iter().enumerate() {
            if r.prem.len() > 1 { for d in 0..r.prem.len() { let mut nr = r.clone(); nr.prem.remove(d); if dm::is_safe(&nr) { let mut rs = c.rules.clone(); rs[i] = nr; out.push(DlCase { rules: rs, ..c.clone() }); } } }
            if r.conc.len() > 1 { for d in 0..r.conc.len() { let mut nr = r.clone(); nr.conc.remove(d); let mut rs = c.rules.clone(); rs[i] = nr; out.push(DlCase { rules: rs, ..c.clone() }); } }
            if !r.filt.is_empty() { let mut nr = r.clone(); nr.filt.clear(); let mut rs = c.rules.clone(); rs[i] = nr; out.push(DlCase { rules: rs, ..c.clone() }); }
            if !r.neg.is_empty() { let mut nr = r.clone(); nr.neg.clear(); let mut rs = c.rules.clone(); rs[i] = nr; out.push(DlCase { rules: rs, ..c.clone() }); }
        }
        for (i, p) in c.runs.iter().enumerate() {
            if p.pool != 1 || p.rayon_seed != 0 { let mut rs = c.runs.clone(); rs[i].pool = 1; rs[i].rayon_seed = 0; out.push(DlCase { runs: rs, ..c.clone() }); }
            if p.order_seed != 0 { let mut rs = c.runs.clone(); rs[i].order_seed = 0; out.push(DlCase { runs: rs, ..c.clone() }); }
        }
        if c.hash_seed != 0 { out.push(DlCase { hash_seed: 0, ..c.clone() }); }
        out
    }
    fn rule(&self) -> String { "A case is one safe program (facts + rules) executed by each of the four strategies under a baseline and several perturbations (simulated pool size/splits/job order/reduce tree, fact and rule insertion order, hash seed); every execution is compared with the reference least (or stratified) model and run a second time. Non-trivial = the model contains at least 2 derived facts; distinct = hash of (fact set, rules). One case in forty is a 100-300 edge reachability chain (as many fixpoint rounds as edges); a quarter of the cases offer a rule with unsafe negation through try_add_rule, which must be refused and take no part; pools up to 200 workers.".into() }
    fn assumptions(&self) -> Vec<String> { vec![
        "reference model: naive fixpoint on lexical triples, numeric filters as evaluate_filters (non-numeric parses as 0)".into(),
        "negation is compared only on the provenance strategy, the one strategy that implements a negative stratum; the negative rules form one top stratum whose conclusions feed no premise".into(),
        "rayon is simulated at job granularity: closures of one parallel call never interleave mid-closure".into() ] }
    fn real_vs_stub(&self) -> serde_json::Value { serde_json::json!({"real": ["datalog::reasoning::Reasoner::{infer_new_facts_naive, infer_new_facts_semi_naive, infer_new_facts_semi_naive_parallel, infer_new_facts_with_provenance(BooleanProvenance)}", "shared::join_algorithm", "shared::rule_index", "shared::dataset_index"], "simulated": ["rayon (sim-rayon: pool size, job cuts, job order, reduce association)", "std RandomState keys"], "not_run": []}) }
    fn matches_known(&self, c: &DlCase, v: &Violation, matcher: &str) -> bool {
        match matcher { "parallel-outside-simple-shape" => v.class.starts_with("semi-naive-parallel:") && !parallel_shape(&c.rules), _ => false }
    }
}

// =====================================================================================================================
// C19 — inconsistency-tolerant answers are those true in every maximal repair, stable from run to run (DESIGN 6.14).
// The explored source of nondeterminism is the hash seed: `compute_repairs` iterates HashSets.
#[derive(Serialize, Deserialize, Clone, Debug)]
pub struct RepCase { pub hash_seeds: Vec<u64>, pub facts: Vec<Fact>, pub constraints: Vec<Vec<Pat>>, pub goal: Pat, pub rules: Vec<dm::Rule>,
    /// a history on ONE reasoner: 0 repair-aware materialisation, 1 ordinary semi-naive materialisation, 2 query_with_repairs,
    /// 3 / 4 add extra fact 0 / 1, 5 ordinary naive materialisation
    #[serde(default)] pub history: Vec<u8>, #[serde(default)] pub extra: Vec<Fact> }
pub struct C19;

fn consistent(facts: &[Fact], constraints: &[Vec<Pat>]) -> bool { constraints.iter().all(|c| dm::match_premises(c, facts).is_empty()) }
/// subset-maximal consistent subsets by enumeration of all subsets
pub fn maximal_repairs(facts: &[Fact], constraints: &[Vec<Pat>]) -> Vec<Vec<Fact>> {
    let n = facts.len();
    let mut cons: Vec<u32> = vec![];
    for mask in 0..(1u32 << n) { let sub: Vec<Fact> = (0..n).filter(|i| mask >> i & 1 == 1).map(|i| facts[i].clone()).collect(); if consistent(&sub, constraints) { cons.push(mask); } }
    let maximal: Vec<u32> = cons.iter().copied().filter(|m| !cons.iter().any(|o| o != m && (o & m) == *m)).collect();
    maximal.iter().map(|m| (0..n).filter(|i| m >> i & 1 == 1).map(|i| facts[i].clone()).collect()).collect()
}
fn answers_on(goal: &Pat, facts: &[Fact]) -> BTreeSet<Vec<(String, String)>> {
    facts.iter().filter_map(|f| dm::unify(goal, f, &dm::Binding::new())).map(|b| b.into_iter().map(|(k, v)| (k[1..].to_string(), v)).collect()).collect()
}

impl Prop for C19 {
    type Case = RepCase;
    fn id(&self) -> &'static str { "C19" }
    fn expected_counters(&self) -> Vec<&'static str> { vec!["probe.several_maximal_repairs", "fault.hash_seed_execution", "probe.answers_survive_conflict", "probe.queries_after_earlier_materialisations_on_the_same_reasoner"] }
    fn budget(&self, tier: Tier) -> Budget { match tier { Tier::Quick => Budget { runs: 2500, wall_s: 60, recheck: 30 }, Tier::Thorough => Budget { runs: 100_000, wall_s: 1000, recheck: 100 } } }
    fn hash_seed(&self, c: &RepCase) -> u64 { c.hash_seeds.first().copied().unwrap_or(0) }
    fn gen(&self, seed: u64, _i: u64, tier: Tier) -> RepCase {
        let mut r = Rng::sub(seed, "workload"); let mut cfg = Rng::sub(seed, "swarm"); let mut hs = Rng::sub(seed, "hash");
        let nn = 3 + r.usize(4); let node = |r: &mut Rng| format!("n{}", r.usize(nn));
        let nf = 3 + r.usize(if cfg.chance(1, 4) { 8 } else { 6 });
        let mut facts: Vec<Fact> = vec![];
        let pred_objects = cfg.chance(1, 4); // some objects name a predicate, so constraints with a variable in predicate position can join on it
        while facts.len() < nf { let o = if pred_objects && r.chance(1, 3) { format!("p{}", r.usize(3)) } else { node(&mut r) }; let f = (node(&mut r), format!("p{}", r.usize(3)), o); if !facts.contains(&f) { facts.push(f); } }
        let mut constraints = vec![];
        for _ in 0..(1 + r.usize(3)) {
            let c: Vec<Pat> = match r.below(8) {
                5 => vec![("?x".into(), "?p".into(), "?x".into())],                                                                   // variable predicate: no self loops at all
                6 => vec![("?a".into(), "?p".into(), "?b".into()), ("?a".into(), "p2".into(), "?p".into())],                          // predicate named by another fact
                7 => vec![("?x".into(), "?p".into(), "?y".into()), ("?y".into(), "?p".into(), "?x".into())],                          // symmetric pair under one (variable) predicate
                0 => vec![("?x".into(), "p0".into(), "?y".into()), ("?x".into(), "p1".into(), "?y".into())],                   // disjointness
                1 => vec![("?x".into(), format!("p{}", r.usize(3)), "?y".into()), ("?x".into(), format!("p{}", r.usize(3)), "?z".into()), ("?y".into(), "p2".into(), "?z".into())],
                2 => vec![("?x".into(), format!("p{}", r.usize(3)), node(&mut r))],                                               // single-fact denial
                3 => vec![("?x".into(), format!("p{}", r.usize(3)), "?y".into()), ("?y".into(), format!("p{}", r.usize(3)), "?x".into())],
                _ => vec![(node(&mut r), format!("p{}", r.usize(3)), "?y".into()), ("?z".into(), format!("p{}", r.usize(3)), "?y".into())],
            };
            constraints.push(c);
        }
        let pos = |r: &mut Rng, v: &str| if r.chance(1, 3) { node(r) } else { v.to_string() };
        let goal = if r.chance(1, 8) { ("?x".to_string(), format!("p{}", r.usize(3)), "?x".to_string()) }          // repeated variable
            else if r.chance(1, 10) { let f = r.pick(&facts).clone(); f }                                                     // fully ground goal
            else { (pos(&mut r, "?s"), if r.chance(1, 6) { "?p".to_string() } else { format!("p{}", r.usize(3)) }, pos(&mut r, "?o")) };
        let rules = if cfg.chance(1, 2) { vec![dm::Rule { prem: vec![("?x".into(), format!("p{}", r.usize(3)), "?y".into())], neg: vec![], conc: vec![("?y".into(), format!("p{}", r.usize(3)), "?x".into())], filt: vec![] }] } else { vec![] };
        let k = if tier == Tier::Quick { 8 } else { 32 };
        let (history, extra) = if facts.len() <= 6 && cfg.chance(1, 3) { ((0..(3 + r.usize(5))).map(|_| *r.pick(&[0u8, 0, 1, 2, 2, 2, 3, 4, 5])).collect(), (0..2).map(|_| (node(&mut r), format!("p{}", r.usize(3)), node(&mut r))).collect()) } else { (vec![], vec![]) };
        RepCase { hash_seeds: (0..k).map(|_| hs.next()).collect(), facts, constraints, goal, rules, history, extra }
    }
    fn exec(&self, c: &RepCase, ctx: &mut Ctx) -> Option<Violation> {
        if c.facts.len() > 12 || c.facts.is_empty() { return None; }
        let mut facts = c.facts.clone(); facts.sort(); facts.dedup();
        let reps = maximal_repairs(&facts, &c.constraints);
        let mut expected: Option<BTreeSet<Vec<(String, String)>>> = None;
        for rp in &reps { let a = answers_on(&c.goal, rp); expected = Some(match expected { None => a, Some(e) => e.intersection(&a).cloned().collect() }); }
        let expected = expected.unwrap_or_default();
        let conflict_free = consistent(&facts, &c.constraints);
        ev!(ctx.log, "facts={} constraints={} repairs={} expected_answers={} consistent={}", facts.len(), c.constraints.len(), reps.len(), expected.len(), conflict_free);
        if reps.len() >= 2 { ctx.hit("probe.several_maximal_repairs"); }
        let mut seen_results: BTreeSet<BTreeSet<Vec<(String, String)>>> = BTreeSet::new();
        for &hs in &c.hash_seeds {
            let (facts_ref, cons_ref, goal_ref, rules_ref) = (&c.facts, &c.constraints, &c.goal, &c.rules);
            let (got, after): (BTreeSet<Vec<(String, String)>>, BTreeSet<Fact>) = kolibrie_verif_rt::hash::with_hash_seed(hs, move || {
                let mut re = build(facts_ref, &[]);
                for cn in cons_ref { let rule = to_rule(&dm::Rule { prem: cn.clone(), neg: vec![], conc: vec![], filt: vec![] }, &re); re.add_constraint(rule); }
                let g = (term_of(&goal_ref.0, &re), term_of(&goal_ref.1, &re), term_of(&goal_ref.2, &re));
                let res = re.query_with_repairs(&g);
                let d = re.dictionary.read().unwrap();
                let got = res.iter().map(|b| { let mut v: Vec<(String, String)> = b.iter().map(|(k, id)| (k.clone(), d.decode(*id).unwrap_or("?").to_string())).collect(); v.sort(); v }).collect();
                drop(d);
                // repair-aware materialisation on a second reasoner
                let mut rm = build(facts_ref, rules_ref);
                for cn in cons_ref { let rule = to_rule(&dm::Rule { prem: cn.clone(), neg: vec![], conc: vec![], filt: vec![] }, &rm); rm.add_constraint(rule); }
                rm.infer_new_facts_semi_naive_with_repairs();
                (got, dump(&rm))
            });
            ctx.hit("fault.hash_seed_execution");
            ev!(ctx.log, "hash_seed={} answers={}", hs, got.len());
            seen_results.insert(got.clone());
            if got != expected {
                let missing: Vec<_> = expected.difference(&got).take(3).collect(); let extra: Vec<_> = got.difference(&expected).take(3).collect();
                let class = if !missing.is_empty() { "answer-missing" } else { "answer-not-in-every-repair" };
                return Some(Violation::new(class, format!("hash seed {}: query_with_repairs returned {} answers, the intersection over the {} subset-maximal repairs has {}; missing {:?}, extra {:?}; distinct results over the seeds tried so far: {}", hs, got.len(), reps.len(), expected.len(), missing, extra, seen_results.len())));
            }
            let after_v: Vec<Fact> = after.iter().cloned().collect();
            if !consistent(&after_v, &c.constraints) { return Some(Violation::new("materialisation-inconsistent", format!("hash seed {}: infer_new_facts_semi_naive_with_repairs ends with {} facts on which a constraint fires", hs, after_v.len()))); }
        }
        // ---- a history of materialisations, additions and queries on one reasoner: every query is judged against the facts the
        // store holds at that moment (read back through the index), every repair-aware materialisation must end consistent
        if !c.history.is_empty() {
            for &hs in c.hash_seeds.iter().take(2) {
                let cr = c.clone();
                let outcome: Result<u64, Violation> = kolibrie_verif_rt::hash::with_hash_seed(hs, move || {
                    let c = &cr;
                    let mut re = build(&c.facts, &c.rules);
                    for cn in &c.constraints { let rule = to_rule(&dm::Rule { prem: cn.clone(), neg: vec![], conc: vec![], filt: vec![] }, &re); re.add_constraint(rule); }
                    let mut queries = 0u64;
                    for (i, op) in c.history.iter().enumerate() {
                        match op {
                            0 => { re.infer_new_facts_semi_naive_with_repairs(); let now: Vec<Fact> = dump(&re).into_iter().collect(); if !consistent(&now, &c.constraints) { return Err(Violation::new("materialisation-inconsistent", format!("history step {} (hash seed {}): repair-aware materialisation on a reasoner with an earlier history ends with {} facts on which a constraint fires", i, hs, now.len()))); } }
                            1 => { re.infer_new_facts_semi_naive(); }
                            5 => { re.infer_new_facts(); }
                            3 | 4 => { if let Some(f) = c.extra.get((*op - 3) as usize) { re.add_abox_triple(&f.0, &f.1, &f.2); } }
                            _ => {
                                let now: Vec<Fact> = dump(&re).into_iter().collect();
                                if now.len() > 13 { continue; }
                                let reps = maximal_repairs(&now, &c.constraints);
                                let mut expected: Option<BTreeSet<Vec<(String, String)>>> = None;
                                for rp in &reps { let a = answers_on(&c.goal, rp); expected = Some(match expected { None => a, Some(e) => e.intersection(&a).cloned().collect() }); }
                                let expected = expected.unwrap_or_default();
                                let g = (term_of(&c.goal.0, &re), term_of(&c.goal.1, &re), term_of(&c.goal.2, &re));
                                let res = re.query_with_repairs(&g);
                                let d = re.dictionary.read().unwrap();
                                let got: BTreeSet<Vec<(String, String)>> = res.iter().map(|b| { let mut v: Vec<(String, String)> = b.iter().map(|(k, id)| (k.clone(), d.decode(*id).unwrap_or("?").to_string())).collect(); v.sort(); v }).collect();
                                drop(d);
                                queries += 1;
                                if got != expected { let missing: Vec<_> = expected.difference(&got).take(3).collect(); let extra: Vec<_> = got.difference(&expected).take(3).collect();
                                    return Err(Violation::new(if !missing.is_empty() { "answer-missing" } else { "answer-not-in-every-repair" }, format!("history step {} (hash seed {}, ops so far {:?}): query_with_repairs over the {} facts the store holds now returned {} answers, the intersection over the {} maximal repairs has {}; missing {:?}, extra {:?}", i, hs, &c.history[..=i], now.len(), got.len(), reps.len(), expected.len(), missing, extra))); }
                            }
                        }
                    }
                    Ok(queries)
                });
                match outcome { Err(v) => return Some(v), Ok(q) => { ctx.count("probe.queries_after_earlier_materialisations_on_the_same_reasoner", q); } }
            }
        }
        if !conflict_free && !expected.is_empty() { ctx.hit("probe.answers_survive_conflict"); }
        if reps.len() >= 2 { ctx.nontrivial(kolibrie_verif_rt::log::fnv(&format!("{:?}{:?}{:?}", facts, c.constraints, c.goal))); }
        ctx.state(reps.len() as u64 * 1000 + expected.len() as u64);
        None
    }
    fn shrink(&self, c: &RepCase) -> Vec<RepCase> {
        let mut out = vec![];
        for h in shrink_vec(&c.hash_seeds) { if !h.is_empty() { out.push(RepCase { hash_seeds: h, ..c.clone() }); } }
        for f in shrink_vec(&c.facts) { if !f.is_empty() { out.push(RepCase { facts: f, ..c.clone() }); } }
        for cs in shrink_vec(&c.constraints) { out.push(RepCase { constraints: cs, ..c.clone() }); }
        if !c.rules.is_empty() { out.push(RepCase { rules: vec![], ..c.clone() }); }
        for h in shrink_vec(&c.history) { out.push(RepCase { history: h, ..c.clone() }); }
        out
    }
    fn rule(&self) -> String { "A case is one (fact set <= 12 facts, constraint set, goal pattern) executed under 8 (quick) or 32 (thorough) simulator-chosen hash seeds, each on its own OS thread; query_with_repairs is compared with the intersection of the goal's answers over all subset-maximal consistent subsets (enumeration of all subsets), and repair-aware materialisation must end consistent. Non-trivial = at least two maximal repairs; distinct = hash of (facts, constraints, goal). A third of the small cases add a history on ONE reasoner (repair-aware / ordinary materialisation, additions, queries): each query is judged against the maximal repairs of the facts the store holds at that moment, each repair-aware materialisation must end consistent.".into() }
    fn assumptions(&self) -> Vec<String> { vec!["constraints are premise-only rules; a set violates a constraint iff the premise join is non-empty (as violates_constraints does)".into(), "run-to-run variation is modelled as variation of std's per-thread hash keys, which the simulator owns through the getrandom symbol".into()] }
    fn real_vs_stub(&self) -> serde_json::Value { serde_json::json!({"real": ["Reasoner::{query_with_repairs, compute_repairs, violates_constraints, infer_new_facts_semi_naive_with_repairs}"], "simulated": ["std RandomState keys per execution (getrandom interposer)"], "not_run": []}) }
}

// =====================================================================================================================
// C12 — incremental cross-window reasoning equals recomputation from scratch (DESIGN 6.10).
// Simulated windows + evaluation clock drive `incremental_sds_plus` step by step.
use datalog::cross_window_sds::{Sds, WindowData, WindowedTriple};
use datalog::reasoning::materialisation::cross_window_incremental::{incremental_sds_plus, SdsWithExpiry};
use datalog::reasoning::materialisation::cross_window_naive::naive_sds_plus;
use std::collections::{BTreeMap, HashMap};
use std::sync::{Arc, RwLock};

#[derive(Serialize, Deserialize, Clone, Debug)]
pub struct WinDecl { pub iri: String, pub alpha: u64 }
#[derive(Serialize, Deserialize, Clone, Debug)]
pub struct Arrival { pub win: usize, pub s: String, pub p: String, pub o: String, pub back: u64 }
#[derive(Serialize, Deserialize, Clone, Debug)]
pub struct SdsStep { pub dt: u64, pub arrivals: Vec<Arrival> }
#[derive(Serialize, Deserialize, Clone, Debug)]
pub struct SdsCase { pub hash_seed: u64, pub windows: Vec<WinDecl>, pub static_iri: String, pub statics: Vec<Fact>, pub outs: Vec<String>, pub rules: Vec<dm::Rule>, pub steps: Vec<SdsStep>, pub pool: usize, pub rayon_seed: u64 }
pub struct C12;

fn longest_prefix<'a>(pred: &str, iris: &'a [String]) -> Option<&'a String> { iris.iter().filter(|i| pred.starts_with(i.as_str())).max_by_key(|i| i.len()) }

impl Prop for C12 {
    type Case = SdsCase;
    fn id(&self) -> &'static str { "C12" }
    fn expected_counters(&self) -> Vec<&'static str> { vec!["probe.rearrival_renews_alive_triple", "probe.renewal_raised_derived_expiry", "probe.derived_fact_lost_support", "probe.evaluation_after_total_expiry", "probe.listed_fact_also_derived_with_longer_support", "probe.renewal_travelled_along_a_chain_of_5_or_more", "probe.derived_fact_with_finite_expiry_in_the_static_namespace"] }
    fn budget(&self, tier: Tier) -> Budget { match tier { Tier::Quick => Budget { runs: 20_000, wall_s: 60, recheck: 30 }, Tier::Thorough => Budget { runs: 600_000, wall_s: 1000, recheck: 100 } } }
    fn hash_seed(&self, c: &SdsCase) -> u64 { c.hash_seed }
    fn gen(&self, seed: u64, _i: u64, _tier: Tier) -> SdsCase {
        let mut r = Rng::sub(seed, "workload"); let mut cfg = Rng::sub(seed, "swarm");
        let nested = cfg.chance(1, 6);
        let nw = 2 + r.usize(2);
        let mut windows: Vec<WinDecl> = (0..nw).map(|i| WinDecl { iri: format!("http://w{}/", i), alpha: 1 + r.below(if cfg.chance(1, 3) { 20 } else { 8 }) }).collect();
        let outs: Vec<String> = if nested { vec!["http://w0/o/".to_string()] } else if r.chance(1, 4) { vec!["http://out/".into(), "http://out2/".into()] } else { vec!["http://out/".into()] };
        if cfg.chance(1, 8) { windows[1].alpha = windows[0].alpha; }
        let static_iri = "urn:kolibrie:static:".to_string();
        let nn = 3 + r.usize(3); let node = |r: &mut Rng| format!("n{}", r.usize(nn));
        let statics: Vec<Fact> = if cfg.chance(1, 2) { (0..r.usize(4)).map(|_| (node(&mut r), "s".to_string(), node(&mut r))).collect() } else { vec![] };
        let locals = ["p", "q"];
        // rules over window-annotated predicates: chains across windows, window x static joins, recursion inside the output component
        let src_pred = |r: &mut Rng, outs: &[String], windows: &[WinDecl], allow_out: bool| -> String {
            match r.below(if allow_out { 5 } else { 4 }) { 0 | 1 | 2 => format!("{}{}", windows[r.usize(windows.len())].iri, r.pick(&locals)), 3 if !statics.is_empty() => format!("{}s", static_iri), 3 => format!("{}{}", windows[0].iri, "p"), _ => format!("{}{}", r.pick(outs), r.pick(&["r", "t"])) } };
        let mut rules = vec![];
        let head_in_window = cfg.chance(1, 3);
        for _ in 0..(1 + r.usize(4)) {
            let k = 1 + r.usize(3);
            let vars = ["?x", "?y", "?z", "?w"];
            let mut prem: Vec<Pat> = vec![];
            for i in 0..k { let s = if r.chance(1, 8) { node(&mut r) } else { vars[i].to_string() }; let o = if r.chance(1, 8) { node(&mut r) } else { vars[i + 1].to_string() }; prem.push((s, src_pred(&mut r, &outs, &windows, true), o)); }
            let used: Vec<String> = prem.iter().flat_map(|p| [p.0.clone(), p.2.clone()]).filter(|t| dm::is_var(t)).collect();
            if used.is_empty() { continue; }
            // mostly into an output component; with `head_in_window` sometimes onto a predicate of an input window, where the same
            // triple may also be listed by the stream (two kinds of support for one fact)
            let conc_pred = if head_in_window && !statics.is_empty() && r.chance(1, 5) { format!("{}{}", static_iri, r.pick(&["s", "u"])) }   // a head in the static graph's namespace, supported by window facts: it expires like any derived fact
                else if head_in_window && r.chance(1, 3) { format!("{}{}", windows[r.usize(windows.len())].iri, r.pick(&locals)) } else { format!("{}{}", r.pick(&outs), r.pick(&["r", "t"])) };
            let conc = vec![(r.pick(&used).clone(), conc_pred, r.pick(&used).clone())];
            rules.push(dm::Rule { prem, neg: vec![], conc, filt: vec![] });
        }
        if rules.is_empty() { rules.push(dm::Rule { prem: vec![("?x".into(), format!("{}p", windows[0].iri), "?y".into())], neg: vec![], conc: vec![("?x".into(), format!("{}r", outs[0]), "?y".into())], filt: vec![] }); }
        let mut steps = vec![];
        let gap_mode = cfg.below(4);
        for _ in 0..(3 + r.usize(10)) {
            let dt = match gap_mode { 0 => 1, 1 => 1 + r.below(3), 2 => if r.chance(1, 4) { 10 + r.below(30) } else { 1 + r.below(4) }, _ => 1 + r.below(15) };
            let mut arrivals = vec![];
            for _ in 0..r.usize(5) { let win = r.usize(nw); arrivals.push(Arrival { win, s: node(&mut r), p: r.pick(&locals).to_string(), o: node(&mut r), back: r.below(dt) }); }
            steps.push(SdsStep { dt, arrivals });
        }
        // one case in ten: a recursive rule walks a chain of 5-10 window items whose source is renewed again and again, so that an
        // improved expiry has to travel through many tag-only fixpoint rounds (more rounds than there are rules)
        if cfg.chance(1, 10) {
            let l = 5 + r.usize(6);
            windows[0].alpha = 30 + r.below(30); windows[1].alpha = 3 + r.below(6);
            let out = outs[0].clone();
            let mut rules = vec![
                dm::Rule { prem: vec![("?x".into(), format!("{}q", windows[1].iri), "?v".into())], neg: vec![], conc: vec![("?x".into(), format!("{}r", out), "?x".into())], filt: vec![] },
                dm::Rule { prem: vec![("?x".into(), format!("{}r", out), "?x".into()), ("?x".into(), format!("{}p", windows[0].iri), "?y".into())], neg: vec![], conc: vec![("?y".into(), format!("{}r", out), "?y".into())], filt: vec![] },
            ];
            if r.chance(1, 2) { rules.reverse(); }
            let mut steps = vec![SdsStep { dt: 1, arrivals: (0..l).map(|i| Arrival { win: 0, s: format!("n{}", i), p: "p".into(), o: format!("n{}", i + 1), back: 0 }).chain(std::iter::once(Arrival { win: 1, s: "n0".into(), p: "q".into(), o: "n0".into(), back: 0 })).collect() }];
            for _ in 0..(3 + r.usize(8)) {
                let dt = 1 + r.below(windows[1].alpha + 2);
                let mut arrivals = vec![];
                if r.chance(3, 4) { arrivals.push(Arrival { win: 1, s: "n0".into(), p: "q".into(), o: "n0".into(), back: r.below(dt) }); }
                if r.chance(1, 4) { let i = r.usize(l); arrivals.push(Arrival { win: 0, s: format!("n{}", i), p: "p".into(), o: format!("n{}", i + 1), back: 0 }); }
                steps.push(SdsStep { dt, arrivals });
            }
            return SdsCase { hash_seed: Rng::sub(seed, "hash").next(), windows, static_iri, statics: vec![], outs, rules, steps, pool: *cfg.pick(&[1, 2, 4, 8, 16]), rayon_seed: Rng::sub(seed, "rayon").next() };
        }
        SdsCase { hash_seed: Rng::sub(seed, "hash").next(), windows, static_iri, statics, outs, rules, steps, pool: *cfg.pick(&[1, 2, 4, 8, 16]), rayon_seed: Rng::sub(seed, "rayon").next() }
    }
    fn exec(&self, c: &SdsCase, ctx: &mut Ctx) -> Option<Violation> {
        if c.windows.is_empty() || c.outs.is_empty() { return None; }
        rayon::sim_configure(c.rayon_seed, c.pool);
        let dict = Arc::new(RwLock::new(shared::dictionary::Dictionary::new()));
        let helper = Reasoner { dictionary: dict.clone(), ..Reasoner::new() };
        let rules: Vec<Rule> = c.rules.iter().filter(|r| dm::is_safe(r)).map(|r| to_rule(r, &helper)).collect();
        let mrules: Vec<dm::Rule> = c.rules.iter().filter(|r| dm::is_safe(r)).cloned().collect();
        let mut contents: Vec<BTreeMap<Fact, u64>> = vec![BTreeMap::new(); c.windows.len()];
        let mut prev: SdsWithExpiry = HashMap::new();
        let mut t = 0u64;
        let mut iris: Vec<String> = c.windows.iter().map(|w| w.iri.clone()).collect(); iris.push(c.static_iri.clone()); iris.extend(c.outs.iter().cloned());
        let mut prev_ref: BTreeMap<Fact, u64> = BTreeMap::new();
        for (si, st) in c.steps.iter().enumerate() {
            t += st.dt.max(1);
            for a in &st.arrivals {
                let w = a.win % c.windows.len(); let et = t - a.back.min(st.dt.max(1) - 1);
                let key = (a.s.clone(), a.p.clone(), a.o.clone());
                if let Some(old) = contents[w].get(&key) { if *old + c.windows[w].alpha > t { ctx.hit("probe.rearrival_renews_alive_triple"); } }
                let e = contents[w].entry(key).or_insert(0); if et > *e { *e = et; }
            }
            for (w, cw) in contents.iter_mut().enumerate() { let alpha = c.windows[w].alpha; cw.retain(|_, e| *e + alpha > t); }
            let mut sds = Sds::new();
            for (w, wd) in c.windows.iter().enumerate() { sds.windows.insert(wd.iri.clone(), WindowData { alpha: wd.alpha, triples: contents[w].iter().map(|((s, p, o), e)| WindowedTriple { subject: s.clone(), predicate: p.clone(), object: o.clone(), event_time: *e }).collect() }); }
            if !c.statics.is_empty() { sds.static_graphs.insert(c.static_iri.clone(), c.statics.clone()); }
            for o in &c.outs { sds.output_iris.insert(o.clone()); }
            let inc = incremental_sds_plus(&rules, &sds, &prev, &dict, t);
            // reference: from-scratch least model with the expiry lattice over the alive annotated facts
            let mut base: BTreeMap<Fact, u64> = BTreeMap::new();
            for (w, wd) in c.windows.iter().enumerate() { for ((s, p, o), e) in &contents[w] { base.insert((s.clone(), format!("{}{}", wd.iri, p), o.clone()), e + wd.alpha); } }
            for (s, p, o) in &c.statics { base.insert((s.clone(), format!("{}{}", c.static_iri, p), o.clone()), u64::MAX); }
            let refm = dm::least_model_expiry(&base, &mrules);
            let d = dict.read().unwrap();
            let mut got: BTreeMap<Fact, (u64, String)> = BTreeMap::new();
            for (comp, m) in &inc { for (tr, e) in m { got.insert((d.decode(tr.subject).unwrap_or("?").to_string(), d.decode(tr.predicate).unwrap_or("?").to_string(), d.decode(tr.object).unwrap_or("?").to_string()), (*e, comp.clone())); } }
            drop(d);
            ev!(ctx.log, "step {} t={} alive={} ref={} inc={}", si, t, base.len(), refm.len(), got.len());
            ctx.state(kolibrie_verif_rt::log::fnv(&format!("{:?}", refm)));
            let gk: BTreeSet<&Fact> = got.keys().collect(); let rk: BTreeSet<&Fact> = refm.keys().collect();
            if gk != rk {
                let missing: Vec<_> = rk.difference(&gk).take(3).collect(); let extra: Vec<_> = gk.difference(&rk).take(3).collect();
                rayon::sim_reset();
                return Some(Violation::new(if !missing.is_empty() { "incremental-fact-missing" } else { "incremental-fact-extra" }, format!("step {} (t={}): incremental materialisation has {} facts, from-scratch reasoning over the alive facts yields {}; missing {:?}, extra {:?}", si, t, got.len(), refm.len(), missing, extra)));
            }
            for (f, e) in &refm {
                let (ge, comp) = &got[f];
                if ge != e { rayon::sim_reset(); return Some(Violation::new("expiry-wrong", format!("step {} (t={}): fact {:?} kept with expiry {} but the latest time until which some derivation stays fully supported is {}", si, t, f, ge, e))); }
                if Some(comp) != longest_prefix(&f.1, &iris) { rayon::sim_reset(); return Some(Violation::new("wrong-component", format!("step {} (t={}): fact {:?} listed under component {} ", si, t, f, comp))); }
            }
            // naive recomputation must agree on the fact sets (per component, stripped predicates)
            let nv = naive_sds_plus(&rules, &sds, &dict, t);
            let d = dict.read().unwrap();
            let mut nset: BTreeSet<(String, String, String, String)> = BTreeSet::new();
            for (comp, v) in &nv { for tr in v { nset.insert((comp.clone(), d.decode(tr.subject).unwrap_or("?").to_string(), d.decode(tr.predicate).unwrap_or("?").to_string(), d.decode(tr.object).unwrap_or("?").to_string())); } }
            drop(d);
            let rset: BTreeSet<(String, String, String, String)> = refm.keys().filter_map(|f| longest_prefix(&f.1, &iris).map(|c| (c.clone(), f.0.clone(), f.1[c.len()..].to_string(), f.2.clone()))).collect();
            if nset != rset { rayon::sim_reset(); return Some(Violation::new("naive-differs", format!("step {} (t={}): naive_sds_plus yields {} facts, reference {}; e.g. {:?} / {:?}", si, t, nset.len(), rset.len(), nset.difference(&rset).next(), rset.difference(&nset).next()))); }
            // probes
            if refm.iter().any(|(f, e)| base.get(f).map(|be| e > be).unwrap_or(false)) { ctx.hit("probe.listed_fact_also_derived_with_longer_support"); }
            if refm.iter().any(|(f, e)| f.1.starts_with(c.static_iri.as_str()) && *e != u64::MAX) { ctx.hit("probe.derived_fact_with_finite_expiry_in_the_static_namespace"); }
            if refm.iter().filter(|(f, e)| !base.contains_key(*f) && prev_ref.get(*f).map(|pe| *e > pe).unwrap_or(false)).count() >= 5 { ctx.hit("probe.renewal_travelled_along_a_chain_of_5_or_more"); }
            for (f, e) in &refm { if let Some(pe) = prev_ref.get(f) { if !base.contains_key(f) && e > pe { ctx.hit("probe.renewal_raised_derived_expiry"); } } }
            if prev_ref.keys().any(|f| !base.contains_key(f) && !refm.contains_key(f)) && !prev_ref.is_empty() { ctx.hit("probe.derived_fact_lost_support"); }
            if !prev_ref.is_empty() && base.values().all(|e| *e == u64::MAX) { ctx.hit("probe.evaluation_after_total_expiry"); }
            prev_ref = refm;
            prev = inc;
        }
        let st = rayon::sim_stats(); ctx.count("fault.pool_split_into_several_jobs", st.split_consumes);
        rayon::sim_reset();
        ctx.sim_ns += t * 1_000_000_000;
        ctx.count("evaluation_steps", c.steps.len() as u64);
        if prev_ref.len() > 0 && c.steps.len() >= 3 { ctx.nontrivial(kolibrie_verif_rt::log::fnv(&format!("{:?}{:?}{:?}", c.rules, c.steps, c.windows))); }
        None
    }
    fn shrink(&self, c: &SdsCase) -> Vec<SdsCase> {
        let mut out = vec![];
        for s in shrink_vec(&c.steps) { if !s.is_empty() { out.push(SdsCase { steps: s, ..c.clone() }); } }
        for rs in shrink_vec(&c.rules) { if !rs.is_empty() { out.push(SdsCase { rules: rs, ..c.clone() }); } }
        for (i, st) in c.steps.iter().enumerate() { for a in shrink_vec(&st.arrivals) { let mut s = c.steps.clone(); s[i].arrivals = a; out.push(SdsCase { steps: s, ..c.clone() }); } }
        for s in shrink_vec(&c.statics) { out.push(SdsCase { statics: s, ..c.clone() }); }
        for (i, r) in c.rules.iter().enumerate() { if r.prem.len() > 1 { for d in 0..r.prem.len() { let mut nr = r.clone(); nr.prem.remove(d); if dm::is_safe(&nr) { let mut rs = c.rules.clone(); rs[i] = nr; out.push(SdsCase { rules: rs, ..c.clone() }); } } } }
        if c.pool != 1 { out.push(SdsCase { pool: 1, rayon_seed: 0, ..c.clone() }); }
        if c.hash_seed != 0 { out.push(SdsCase { hash_seed: 0, ..c.clone() }); }
        out
    }
    fn rule(&self) -> String { "A case is one window-consistent stream history over 2-3 simulated windows (+ optional static graph) with an increasing sequence of evaluation times chosen by the simulated clock (dense, sparse, jumping past every expiry); at every evaluation incremental_sds_plus is fed the carried state and compared, per component, fact by fact and expiry by expiry, with a from-scratch reference least model over the alive facts with the expiry lattice; naive_sds_plus must give the same fact sets. Non-trivial = at least 3 evaluation steps and a non-empty final materialisation; distinct = hash of (rules, steps, windows). A third of the cases put rule heads on predicates of input windows (a fact both listed and derived); one case in ten renews the source of a 5-10 item chain under a recursive rule (more tag-only fixpoint rounds than rules). Heads may also lie in the static graph's namespace (supported by window facts, they expire like any derived fact).".into() }
    fn assumptions(&self) -> Vec<String> { vec!["window contents are built as the quantifier states: a triple is listed once with its latest arrival and stays listed until event_time + alpha <= t".into(), "rule conclusions lie in an output component or (a third of the cases) on a predicate of an input window; component IRIs may be nested but local names contain no '/'".into()] }
    fn real_vs_stub(&self) -> serde_json::Value { serde_json::json!({"real": ["datalog::reasoning::materialisation::cross_window_incremental::incremental_sds_plus", "cross_window_naive::naive_sds_plus", "cross_window_sds::translate_sds_to_datalog", "provenance_semi_naive (ExpirationProvenance)"], "simulated": ["stream arrival times and evaluation clock", "window contents (simulated windows; the real CSPARQLWindow is exercised by C09-C11)", "rayon (sim-rayon)", "hash keys"], "not_run": ["RSPEngine cross-window wiring (build_cross_window_sds)"]}) }
}
