//! C08 — hybrid probability results never certify a wrong decision (DESIGN.md 6.6).
//! Fault seam: the `HybridClock` trait (simulated clock; deadline expiry injected at every clock reading) and the node budget.
use kolibrie_verif_rt::ev;
use kolibrie_verif_rt::harness::*;
use kolibrie_verif_rt::rng::Rng;
use serde::{Deserialize, Serialize};
use shared::hybrid::*;
use shared::seed_spec::*;
use shared::triple::Triple;
use std::sync::atomic::{AtomicU64, Ordering};
use std::sync::{Arc, Mutex};
use std::time::{Duration, Instant};

#[derive(Serialize, Deserialize, Clone, Debug)]
pub struct SeedDecl { pub prob: f64, pub group: Option<u32> }
#[derive(Serialize, Deserialize, Clone, Debug)]
pub enum NodeDecl { And(Vec<usize>), Or(Vec<usize>), Not(usize), True, False }
#[derive(Serialize, Deserialize, Clone, Debug)]
pub struct Cfg { pub threshold: f64, pub band: f64, pub gain_floor: f64, pub k_initial: usize, pub k_max: usize, pub k_growth: usize, pub topk_budget_us: u64, pub sdd_budget_us: u64, pub node_budget: usize }
#[derive(Serialize, Deserialize, Clone, Debug)]
pub enum Faults { None, JumpAt(Vec<u64>), EveryReading }
#[derive(Serialize, Deserialize, Clone, Debug)]
pub struct HybCase { pub hash_seed: u64, pub seeds: Vec<SeedDecl>, pub nodes: Vec<NodeDecl>, pub cfg: Cfg, pub step_ns: u64, pub faults: Faults, #[serde(default)] pub cap: u64, #[serde(default)] pub pipeline: Option<Pipeline> }
#[derive(Serialize, Deserialize, Clone, Debug)]
pub struct Pipeline { pub seeded: Vec<(models::datalog::Fact, f64)>, pub certain: Vec<models::datalog::Fact>, pub rules: Vec<models::datalog::Rule>, #[serde(default)] pub group: Vec<(models::datalog::Fact, f64)> }

pub struct C08;

/// simulated clock: every reading is numbered; at reading `jump_at` time leaps one hour (past every deadline)
pub struct SimClock { base: Instant, nanos: AtomicU64, step: u64, pub reads: AtomicU64, jump_at: u64, pub jumped: AtomicU64 }
impl SimClock { pub fn new(step: u64, jump_at: u64) -> SimClock { SimClock { base: Instant::now(), nanos: AtomicU64::new(0), step, reads: AtomicU64::new(0), jump_at, jumped: AtomicU64::new(0) } } }
impl HybridClock for SimClock {
    fn now(&self) -> Instant {
        let r = self.reads.fetch_add(1, Ordering::Relaxed) + 1;
        if r == self.jump_at { self.nanos.fetch_add(3_600_000_000_000, Ordering::Relaxed); self.jumped.store(1, Ordering::Relaxed); }
        let n = self.nanos.fetch_add(self.step, Ordering::Relaxed);
        self.base + Duration::from_nanos(n)
    }
}

pub fn truth(nodes: &[NodeDecl], nseeds: usize, world: &[bool], memo: &mut Vec<Option<bool>>, i: usize) -> bool {
    if i < nseeds { return world[i]; }
    if let Some(b) = memo[i] { return b; }
    let r = match &nodes[i - nseeds] {
        NodeDecl::True => true, NodeDecl::False => false,
        NodeDecl::Not(c) => !truth(nodes, nseeds, world, memo, *c),
        NodeDecl::And(cs) => cs.iter().all(|c| truth(nodes, nseeds, world, memo, *c)),
        NodeDecl::Or(cs) => cs.iter().any(|c| truth(nodes, nseeds, world, memo, *c)),
    };
    memo[i] = Some(r); r
}
/// possible-worlds probability: independent seeds are free, each exclusive group has exactly one true member
pub fn possible_worlds(seeds: &[SeedDecl], nodes: &[NodeDecl], root: usize) -> f64 {
    let n = seeds.len();
    let mut groups: Vec<(u32, Vec<usize>)> = vec![];
    for (i, s) in seeds.iter().enumerate() { if let Some(g) = s.group { if let Some(e) = groups.iter_mut().find(|e| e.0 == g) { e.1.push(i) } else { groups.push((g, vec![i])) } } }
    let indep: Vec<usize> = (0..n).filter(|i| seeds[*i].group.is_none()).collect();
    let mut total = 0.0;
    let mut choice = vec![0usize; groups.len()];
    loop {
        for mask in 0..(1u32 << indep.len()) {
            let mut world = vec![false; n]; let mut p = 1.0;
            for (b, &i) in indep.iter().enumerate() { let t = (mask >> b) & 1 == 1; world[i] = t; p *= if t { seeds[i].prob } else { 1.0 - seeds[i].prob }; }
            for (gi, (_, ms)) in groups.iter().enumerate() { let i = ms[choice[gi]]; world[i] = true; p *= seeds[i].prob; }
            if p == 0.0 { continue; }
            let mut memo = vec![None; n + nodes.len()];
            if truth(nodes, n, &world, &mut memo, root) { total += p; }
        }
        // next combination of group choices
        let mut gi = 0;
        loop { if gi == groups.len() { return total; } choice[gi] += 1; if choice[gi] < groups[gi].1.len() { break; } choice[gi] = 0; gi += 1; }
    }
}

pub fn normalize_refs(seeds: &[SeedDecl], nodes: &[NodeDecl]) -> Vec<NodeDecl> {
    let n = seeds.len();
    nodes.iter().enumerate().map(|(k, nd)| { let avail = n + k; let f = |c: &usize| if avail == 0 { 0 } else { *c % avail }; match nd { NodeDecl::And(cs) => NodeDecl::And(cs.iter().map(f).collect()), NodeDecl::Or(cs) => NodeDecl::Or(cs.iter().map(f).collect()), NodeDecl::Not(c) => NodeDecl::Not(f(c)), x => x.clone() } }).collect()
}

pub fn build(seeds: &[SeedDecl], nodes: &[NodeDecl]) -> Option<(Arc<SeedSnapshot>, LineageStore, Vec<LineageId>)> {
    let mut specs: Vec<SeedSpec> = vec![];
    let mut groups: Vec<(u32, Vec<ExclusiveChoice>)> = vec![];
    for (i, s) in seeds.iter().enumerate() {
        let triple = Triple { subject: i as u32 + 10, predicate: 100, object: 200 };
        match s.group { None => specs.push(SeedSpec::Independent { triple, prob: s.prob, seed_id: i as u32 }),
            Some(g) => { let ch = ExclusiveChoice { triple, prob: s.prob, choice_id: i as u32 }; if let Some(e) = groups.iter_mut().find(|e| e.0 == g) { e.1.push(ch) } else { groups.push((g, vec![ch])) } } }
    }
    for (g, choices) in groups { specs.push(SeedSpec::ExclusiveGroup { group_id: g, choices }); }
    let snap = Arc::new(SeedSnapshot::from_seed_specs(&specs).ok()?);
    let mut ids: Vec<SeedId> = snap.records().map(|r| r.id).collect(); ids.sort();
    let mut store = LineageStore::new();
    let mut lids: Vec<LineageId> = ids.iter().map(|i| store.literal(*i)).collect();
    for nd in nodes {
        let id = match nd { NodeDecl::True => LineageId::TRUE, NodeDecl::False => LineageId::FALSE, NodeDecl::Not(c) => store.not(lids[*c]), NodeDecl::And(cs) => store.and(cs.iter().map(|c| lids[*c]).collect::<Vec<_>>()), NodeDecl::Or(cs) => store.or(cs.iter().map(|c| lids[*c]).collect::<Vec<_>>()) };
        lids.push(id);
    }
    Some((snap, store, lids))
}

const EPS: f64 = 1e-9;
/// soundness-only oracle: a result may degrade, never lie
pub fn judge(r: &HybridProbabilityResult, pstar: f64, th: f64) -> Option<Violation> {
    let dec_bad = |d: &AlertDecision| (*d == AlertDecision::Alert && pstar < th - EPS) || (*d == AlertDecision::NoAlert && pstar >= th + EPS);
    match r {
        HybridProbabilityResult::Exact { probability, decision, .. } => {
            if (probability - pstar).abs() > EPS { return Some(Violation::new("exact-wrong", format!("result marked Exact reports {} but the possible-worlds probability is {}", probability, pstar))); }
            if dec_bad(decision) { return Some(Violation::new("decision-wrong", format!("Exact result decides {:?} but p*={} and threshold={}", decision, pstar, th))); }
        }
        HybridProbabilityResult::Bounded { interval, decision, .. } => {
            if pstar < interval.lower - EPS || pstar > interval.upper + EPS { return Some(Violation::new("interval-misses", format!("reported interval [{}, {}] does not contain p*={}", interval.lower, interval.upper, pstar))); }
            if dec_bad(decision) { return Some(Violation::new("decision-wrong", format!("Bounded result decides {:?} but p*={} and threshold={}", decision, pstar, th))); }
        }
        HybridProbabilityResult::LowerBound { lower_bound, decision, .. } => {
            if *lower_bound > pstar + EPS { return Some(Violation::new("lower-bound-wrong", format!("lower bound {} exceeds p*={}", lower_bound, pstar))); }
            if dec_bad(decision) { return Some(Violation::new("decision-wrong", format!("LowerBound result decides {:?} but p*={} and threshold={}", decision, pstar, th))); }
        }
        HybridProbabilityResult::NeedsExact { lower_bound, upper_bound, .. } => {
            if let Some(l) = lower_bound { if *l > pstar + EPS { return Some(Violation::new("lower-bound-wrong", format!("NeedsExact carries lower bound {} above p*={}", l, pstar))); } }
            if let Some(u) = upper_bound { if *u < pstar - EPS { return Some(Violation::new("upper-bound-wrong", format!("NeedsExact carries upper bound {} below p*={}", u, pstar))); } }
        }
        HybridProbabilityResult::UnsafeApproximation { .. } => {}
    }
    None
}

pub fn to_config(c: &Cfg) -> HybridConfig {
    HybridConfig { threshold: c.threshold, band_epsilon: c.band, marginal_gain_floor: c.gain_floor, k_initial: c.k_initial, k_max: c.k_max, k_growth: c.k_growth,
        topk_budget: Duration::from_micros(c.topk_budget_us), sdd_budget: Duration::from_micros(c.sdd_budget_us), sdd_node_budget: c.node_budget, ..HybridConfig::default() }
}

impl Prop for C08 {
    type Case = HybCase;
    fn id(&self) -> &'static str { "C08" }
    fn expected_counters(&self) -> Vec<&'static str> { vec!["probe.materialisation_evaluated_again_under_another_threshold", "probe.non_monotone_lineage", "probe.exclusive_group_lineage", "fault.budget_expired_by_clock_step", "fault.clock_jump_at_reading", "probe.fault_position_changed_result_kind", "fault.compile_deadline", "fault.compile_node_budget", "fault.topk_budget_expired", "probe.pipeline_derived_facts_evaluated"] }
    fn level(&self) -> &'static str { "fault_enumeration" }
    fn budget(&self, tier: Tier) -> Budget { match tier { Tier::Quick => Budget { runs: 12_000, wall_s: 60, recheck: 30 }, Tier::Thorough => Budget { runs: 400_000, wall_s: 1000, recheck: 100 } } }
    fn hash_seed(&self, c: &HybCase) -> u64 { c.hash_seed }
    fn gen(&self, seed: u64, _index: u64, tier: Tier) -> HybCase {
        let mut r = Rng::sub(seed, "workload"); let mut cfg = Rng::sub(seed, "swarm");
        let hash_seed = Rng::sub(seed, "hash").next();
        let n = 2 + r.usize(if cfg.chance(1, 4) { 11 } else { 7 });
        let nonmono = cfg.chance(1, 4);
        let with_groups = cfg.chance(1, 3);
        let mut seeds: Vec<SeedDecl> = (0..n).map(|_| SeedDecl { prob: match r.below(7) { 0 => 0.0, 1 => 1.0, 2 => 0.5, 3 => 0.999, 4 => 1e-6, _ => r.below(1000) as f64 / 1000.0 }, group: None }).collect();
        if with_groups {
            let ng = 1 + r.usize(2); let mut pos = 0;
            for g in 0..ng { let sz = 2 + r.usize(3); if pos + sz > n { break; } let w: Vec<u64> = (0..sz).map(|_| 1 + r.below(8)).collect(); let s: u64 = w.iter().sum(); for k in 0..sz { seeds[pos + k].group = Some(g as u32); seeds[pos + k].prob = w[k] as f64 / s as f64; } pos += sz; }
        }
        let steps = 3 + r.usize(28);
        let mut nodes = vec![];
        let shape = cfg.below(4); // 0 random, 1 DNF-like with sharing, 2 deep chain, 3 wide with subsumed proofs
        for k in 0..steps {
            let avail = n + k;
            let pick = |r: &mut Rng| match shape { 2 => if r.chance(2, 3) && k > 0 { avail - 1 - r.usize(2.min(k)) } else { r.usize(avail) }, _ => r.usize(avail) };
            let arity = 2 + r.usize(if shape == 3 { 4 } else { 2 });
            let mut ch: Vec<usize> = (0..arity).map(|_| pick(&mut r)).collect();
            if r.chance(1, 10) { let d = ch[0]; ch.push(d); }
            let c = r.below(20);
            let nd = if nonmono && c < 2 { NodeDecl::Not(ch[0]) } else if c == 2 && r.chance(1, 4) { if r.chance(1, 2) { NodeDecl::True } else { NodeDecl::False } }
                else if shape == 1 { if k % 3 == 2 { NodeDecl::Or(ch) } else { NodeDecl::And(ch) } } else if c % 2 == 0 { NodeDecl::And(ch) } else { NodeDecl::Or(ch) };
            nodes.push(nd);
        }
        if shape == 1 || shape == 3 { let k = nodes.len(); let m = 2 + r.usize(4); nodes.push(NodeDecl::Or((0..m).map(|_| n + r.usize(k)).collect())); }
        let k_initial = 1 + r.usize(4); let k_max = k_initial + r.usize(12);
        let c = Cfg { threshold: match r.below(6) { 0 => 0.0, 1 => 1.0, _ => r.below(1000) as f64 / 1000.0 }, band: match r.below(4) { 0 => 0.0, _ => r.below(200) as f64 / 1000.0 }, gain_floor: if r.chance(1, 2) { 0.0 } else { 1e-3 },
            k_initial, k_max, k_growth: 2 + r.usize(2), topk_budget_us: *r.pick(&[50, 1000, 25_000]), sdd_budget_us: *r.pick(&[100, 5000, 250_000]), node_budget: if r.chance(1, 4) { 2 + r.usize(40) } else { 100_000 } };
        // clock step per reading: tiny (budgets never expire by themselves) or a fraction of a budget (they expire mid-phase)
        let step_ns = match cfg.below(4) { 0 | 1 => 1000, 2 => c.topk_budget_us * 1000 / (1 + r.below(40)), _ => c.sdd_budget_us * 1000 / (1 + r.below(80)) }.max(1);
        let faults = match tier { Tier::Quick => match cfg.below(5) { 0 => Faults::None, 1 => Faults::EveryReading, _ => Faults::JumpAt((0..8).map(|_| r.next()).collect()) }, Tier::Thorough => if cfg.chance(1, 10) { Faults::None } else { Faults::EveryReading } };
        let pipeline = if cfg.chance(1, 4) { Some(gen_pipeline(&mut r)) } else { None };
        HybCase { hash_seed, seeds, nodes, cfg: c, step_ns, faults, cap: if tier == Tier::Quick { 200 } else { 1500 }, pipeline }
    }
    fn exec(&self, c: &HybCase, ctx: &mut Ctx) -> Option<Violation> {
        if let Some(p) = &c.pipeline { return exec_pipeline(c, p, ctx); }
        if c.seeds.is_empty() { return None; }
        let nodes = normalize_refs(&c.seeds, &c.nodes);
        let cfg = to_config(&c.cfg);
        if cfg.validate().is_err() { ctx.hit("invalid_config_skipped"); return None; }
        let Some((snap, store, lids)) = build(&c.seeds, &nodes) else { ctx.hit("invalid_seeds_skipped"); return None };
        let root_idx = c.seeds.len() + nodes.len() - if nodes.is_empty() { 1 } else { 1 };
        let root = *lids.last().unwrap();
        let pstar = possible_worlds(&c.seeds, &nodes, root_idx);
        ev!(ctx.log, "seeds={} nodes={} p*={:.12} th={}", c.seeds.len(), nodes.len(), pstar, c.cfg.threshold);
        let meta = store.metadata(root, &snap);
        if meta.has_negation { ctx.hit("probe.non_monotone_lineage"); }
        if meta.has_exclusive_group { ctx.hit("probe.exclusive_group_lineage"); }
        let store = Arc::new(Mutex::new(store));
        // ---- fault-free run (only the configured step per reading)
        let clk = SimClock::new(c.step_ns, 0);
        let r0 = evaluate_hybrid_with_clock(&store, &snap, root, &cfg, &clk);
        let reads = clk.reads.load(Ordering::Relaxed);
        ctx.sim_ns += reads * c.step_ns;
        ev!(ctx.log, "fault-free: {} reason={} reads={}", r0.status(), r0.reason().as_str(), reads);
        ctx.hit(match r0.status() { "Exact" => "result.exact", "Bounded" => "result.bounded", "LowerBound" => "result.lower_bound", "NeedsExact" => "result.needs_exact", _ => "result.unsafe_approximation" });
        if let Some(mut v) = judge(&r0, pstar, c.cfg.threshold) { v.detail = format!("fault-free run (step {} ns/reading): {} [{:?}]", c.step_ns, v.detail, r0.reason()); return Some(v); }
        if c.step_ns > 1000 && r0.status() != "Exact" { ctx.hit("fault.budget_expired_by_clock_step"); }
        // ---- clock jumps past every deadline at reading j
        let js: Vec<u64> = match &c.faults { Faults::None => vec![], Faults::EveryReading => { let cap = if c.cap == 0 { 200 } else { c.cap }; if reads <= cap { (1..=reads).collect() } else { ctx.hit("probe.fault_positions_strided_beyond_cap"); let head = cap / 2; let stride = ((reads - head) / (cap - head)).max(1); let mut v: Vec<u64> = (1..=head).collect(); let mut j = head + 1; while j <= reads { v.push(j); j += stride; } v.push(reads); v.dedup(); v } } Faults::JumpAt(sel) => { let mut v: Vec<u64> = sel.iter().map(|s| 1 + s % reads.max(1)).collect(); v.push(1); v.push(reads.max(1)); v.sort(); v.dedup(); v } };
        let mut kinds = std::collections::BTreeSet::new();
        for j in &js {
            let clk = SimClock::new(c.step_ns, *j);
            let r = evaluate_hybrid_with_clock(&store, &snap, root, &cfg, &clk);
            if clk.jumped.load(Ordering::Relaxed) == 1 { ctx.hit("fault.clock_jump_at_reading"); }
            ctx.sim_ns += clk.reads.load(Ordering::Relaxed) * c.step_ns;
            kinds.insert(r.status());
            ev!(ctx.log, "jump@{}/{}: {} reason={}", j, reads, r.status(), r.reason().as_str());
            if let Some(mut v) = judge(&r, pstar, c.cfg.threshold) { v.detail = format!("clock jumps past every deadline at reading {}/{}: {} [{:?}]", j, reads, v.detail, r.reason()); return Some(v); }
        }
        if kinds.len() >= 2 { ctx.hit("probe.fault_position_changed_result_kind"); }
        // ---- exact compilation on its own, fault-free and with the jump at every reading of its own
        {
            let st = store.lock().unwrap();
            let clk = SimClock::new(1000, 0);
            let r = compile_lineage_to_sdd_with_clock(&st, &snap, root, cfg.sdd_budget, 1_000_000, &clk);
            let creads = clk.reads.load(Ordering::Relaxed);
            match &r {
                Ok(cs) => { let w = cs.manager.wmc(cs.root); if (w - pstar).abs() > EPS { return Some(Violation::new("compile-wrong", format!("compile_lineage_to_sdd + wmc gives {} but p*={}", w, pstar))); } }
                Err(e) => { if creads * 1000 < c.cfg.sdd_budget_us * 1000 { return Some(Violation::new("compile-spurious-failure", format!("compilation failed with {:?} although neither the deadline ({} us, clock at {} ns) nor the node budget was exhausted", e, c.cfg.sdd_budget_us, creads * 1000))); } }
            }
            let cj: Vec<u64> = match &c.faults { Faults::None => vec![], Faults::EveryReading => (1..=creads.min(400)).collect(), Faults::JumpAt(sel) => sel.iter().take(3).map(|s| 1 + s % creads.max(1)).collect() };
            for j in cj {
                let clk = SimClock::new(1000, j);
                if let Ok(cs) = compile_lineage_to_sdd_with_clock(&st, &snap, root, cfg.sdd_budget, 1_000_000, &clk) { let w = cs.manager.wmc(cs.root); if (w - pstar).abs() > EPS { return Some(Violation::new("compile-wrong", format!("compilation interrupted-or-not at reading {} returned Ok with wmc {} but p*={}", j, w, pstar))); } }
                else { ctx.hit("fault.compile_deadline"); }
            }
            // small node budgets
            for nb in [2usize, 3, 5, 9, 17] {
                let clk = SimClock::new(1000, 0);
                match compile_lineage_to_sdd_with_clock(&st, &snap, root, cfg.sdd_budget, nb, &clk) { Ok(cs) => { let w = cs.manager.wmc(cs.root); if (w - pstar).abs() > EPS { return Some(Violation::new("compile-wrong", format!("compilation under node budget {} returned Ok with wmc {} but p*={}", nb, w, pstar))); } if cs.manager.node_count() > nb.max(2) { return Some(Violation::new("node-budget-overrun", format!("node budget {} but the compiled manager holds {} nodes", nb, cs.manager.node_count()))); } } Err(_) => ctx.hit("fault.compile_node_budget") }
            }
            // fixed-k evaluation (monotone, independent cones only): a certified lower bound and a containing interval
            if !meta.has_negation && meta.monotone && !meta.has_exclusive_group {
                for k in [1usize, 2, 5] {
                    // evaluate_topk reads SystemHybridClock: under cfg(kolibrie_verif) that is the simulated clock installed here
                    kolibrie_verif_rt::hybrid_clock::install(c.step_ns.min(20_000), 0);
                    let rt = evaluate_topk(&st, &snap, root, k, cfg.topk_budget, 1_000_000);
                    ctx.sim_ns += kolibrie_verif_rt::hybrid_clock::elapsed_ns();
                    kolibrie_verif_rt::hybrid_clock::uninstall();
                    if rt.is_err() { ctx.hit("fault.topk_budget_expired"); }
                    if let Ok(t) = rt {
                        if t.lower_bound > pstar + EPS { return Some(Violation::new("lower-bound-wrong", format!("evaluate_topk(k={}) lower bound {} exceeds p*={}", k, t.lower_bound, pstar))); }
                        if pstar < t.interval.lower - EPS || pstar > t.interval.upper + EPS { return Some(Violation::new("interval-misses", format!("evaluate_topk(k={}) interval [{}, {}] does not contain p*={}", k, t.interval.lower, t.interval.upper, pstar))); }
                        if t.frontier_exhausted && (t.lower_bound - pstar).abs() > EPS { return Some(Violation::new("exact-wrong", format!("evaluate_topk(k={}) says the frontier is exhausted but lower bound {} != p*={}", k, t.lower_bound, pstar))); }
                    }
                }
            }
        }
        if matches!(c.faults, Faults::None) { ctx.hit("class.fault_free"); } else { ctx.hit("class.faulted"); }
        ctx.count("evaluations_under_fault", js.len() as u64);
        if pstar > 0.0 && pstar < 1.0 && nodes.len() >= 3 { ctx.nontrivial(kolibrie_verif_rt::log::fnv(&format!("{:?}{:?}{:?}", c.seeds, nodes, c.cfg))); }
        ctx.state((pstar * 1e12) as u64);
        None
    }
    fn shrink(&self, c: &HybCase) -> Vec<HybCase> {
        let mut out = vec![];
        if let Some(p) = &c.pipeline {
            for x in shrink_vec(&p.seeded) { if !x.is_empty() { out.push(HybCase { pipeline: Some(Pipeline { seeded: x, ..p.clone() }), ..c.clone() }); } }
            for x in shrink_vec(&p.certain) { out.push(HybCase { pipeline: Some(Pipeline { certain: x, ..p.clone() }), ..c.clone() }); }
            if !p.group.is_empty() { out.push(HybCase { pipeline: Some(Pipeline { group: vec![], ..p.clone() }), ..c.clone() }); }
            for x in shrink_vec(&p.rules) { if !x.is_empty() { out.push(HybCase { pipeline: Some(Pipeline { rules: x, ..p.clone() }), ..c.clone() }); } }
            if !matches!(c.faults, Faults::None) { out.push(HybCase { faults: Faults::None, ..c.clone() }); }
            if c.step_ns != 1000 { out.push(HybCase { step_ns: 1000, ..c.clone() }); }
            return out;
        }
        for ns in shrink_vec(&c.nodes) { if !ns.is_empty() { out.push(HybCase { nodes: ns, ..c.clone() }); } }
        if let Faults::EveryReading = c.faults { out.push(HybCase { faults: Faults::None, ..c.clone() }); }
        if let Faults::JumpAt(v) = &c.faults { out.push(HybCase { faults: Faults::None, ..c.clone() }); for s in shrink_vec(v) { out.push(HybCase { faults: Faults::JumpAt(s), ..c.clone() }); } }
        if c.seeds.len() > 1 && c.seeds.last().unwrap().group.is_none() { let mut s = c.seeds.clone(); s.pop(); out.push(HybCase { seeds: s, ..c.clone() }); }
        for i in 0..c.seeds.len() { if c.seeds[i].group.is_none() && c.seeds[i].prob != 0.5 { let mut s = c.seeds.clone(); s[i].prob = 0.5; out.push(HybCase { seeds: s, ..c.clone() }); } }
        if c.seeds.iter().any(|s| s.group.is_some()) { let s = c.seeds.iter().map(|s| SeedDecl { prob: s.prob, group: None }).collect(); out.push(HybCase { seeds: s, ..c.clone() }); }
        for (i, nd) in c.nodes.iter().enumerate() { match nd { NodeDecl::And(cs) | NodeDecl::Or(cs) if cs.len() > 1 => { for d in 0..cs.len() { let mut m = cs.clone(); m.remove(d); let mut ns = c.nodes.clone(); ns[i] = if matches!(nd, NodeDecl::And(_)) { NodeDecl::And(m) } else { NodeDecl::Or(m) }; out.push(HybCase { nodes: ns, ..c.clone() }); } } _ => {} } }
        if c.step_ns != 1000 { out.push(HybCase { step_ns: 1000, ..c.clone() }); }
        if c.cfg.node_budget != 100_000 { let mut g = c.cfg.clone(); g.node_budget = 100_000; out.push(HybCase { cfg: g, ..c.clone() }); }
        if c.hash_seed != 0 { out.push(HybCase { hash_seed: 0, ..c.clone() }); }
        out
    }
    fn rule(&self) -> String { "A case is one lineage DAG over <=12 seeds (independent and exclusive groups) with a HybridConfig and a clock script: one fault-free evaluation under the simulated clock, then one evaluation per fault position (clock jumps one hour at reading j; every j in EveryReading mode), plus compile_lineage_to_sdd_with_clock under its own jump positions and small node budgets, plus evaluate_topk for monotone independent cones. Non-trivial = possible-worlds probability strictly between 0 and 1 and at least 3 internal nodes; distinct = hash of (seeds, DAG, config). The pipeline variant asks the retained materialisation again under a second threshold (each answer judged against the threshold of its own call).".into() }
    fn assumptions(&self) -> Vec<String> { vec![
        "possible-worlds enumeration (<=4096 worlds; exclusive groups: exactly one member true, member probabilities sum to 1) is the oracle".into(),
        "soundness only: nothing is required about which result variant comes back or how fast; Indeterminate and UnsafeApproximation are always acceptable".into(),
        "tolerance 1e-9 on probabilities and at the threshold".into() ] }
    fn real_vs_stub(&self) -> serde_json::Value { serde_json::json!({"real": ["shared::hybrid::{evaluate_hybrid_with_clock, evaluate_topk, compile_lineage_to_sdd_with_clock, LineageStore, SeedSnapshot}", "shared::sdd"], "simulated": ["HybridClock (SimClock: numbered readings, scripted step and jump)", "sdd_node_budget", "std RandomState keys"], "not_run": []}) }
}


// ---------------------------------------------------------------------------------------------------------------------
// the real pipeline: Reasoner::infer_new_facts_with_hybrid (materialize_lineage + evaluate_hybrid through SystemHybridClock,
// which reads the scripted clock under cfg(kolibrie_verif))
use models::datalog::{self as dm, Fact};
use std::collections::BTreeSet;
fn gen_pipeline(r: &mut Rng) -> Pipeline {
    let nn = 3 + r.usize(3); let node = |r: &mut Rng| format!("n{}", r.usize(nn));
    let nseed = 2 + r.usize(8);
    let mut seeded: Vec<(Fact, f64)> = vec![];
    while seeded.len() < nseed { let f = (node(r), format!("b{}", r.usize(2)), node(r)); if !seeded.iter().any(|(g, _)| *g == f) { seeded.push((f, match r.below(5) { 0 => 0.5, 1 => 1.0, 2 => 0.0, _ => r.below(1000) as f64 / 1000.0 })); } }
    let certain: Vec<Fact> = (0..r.usize(4)).map(|_| (node(r), format!("b{}", r.usize(2)), node(r))).filter(|f| !seeded.iter().any(|(g, _)| g == f)).collect();
    // layered predicates keep the dependency graph acyclic: b* (base) < d1 < d2
    let layer_preds = |r: &mut Rng, below: usize| -> String { match r.usize(below) { 0 => format!("b{}", r.usize(2)), k => format!("d{}", k) } };
    let mut rules = vec![];
    for _ in 0..(1 + r.usize(3)) {
        let head_layer = 1 + r.usize(2);
        let k = 1 + r.usize(2); let vars = ["?x", "?y", "?z"];
        let prem: Vec<dm::Pat> = (0..k).map(|i| (vars[i].to_string(), layer_preds(r, head_layer), vars[i + 1].to_string())).collect();
        let used: Vec<String> = prem.iter().flat_map(|p| [p.0.clone(), p.2.clone()]).collect();
        let neg = if r.chance(1, 6) { vec![(r.pick(&used).clone(), "b0".to_string(), r.pick(&used).clone())] } else { vec![] };
        rules.push(dm::Rule { prem, neg, conc: vec![(r.pick(&used).clone(), format!("d{}", head_layer), r.pick(&used).clone())], filt: vec![] });
    }
    // optionally one exclusive group (exactly one member holds; probabilities sum to one)
    let mut group: Vec<(Fact, f64)> = vec![];
    if r.chance(1, 3) { let k = 2 + r.usize(2); let w: Vec<u64> = (0..k).map(|_| 1 + r.below(6)).collect(); let tot: u64 = w.iter().sum(); while group.len() < k { let f = (node(r), format!("b{}", r.usize(2)), node(r)); if !seeded.iter().any(|(g, _)| *g == f) && !certain.contains(&f) && !group.iter().any(|(g, _)| *g == f) { let i = group.len(); group.push((f, w[i] as f64 / tot as f64)); } } }
    Pipeline { seeded, certain, rules, group }
}
fn exec_pipeline(c: &HybCase, p: &Pipeline, ctx: &mut Ctx) -> Option<Violation> {
    use datalog::reasoning::Reasoner;
    use shared::rule::Rule;
    use shared::terms::Term;
    if p.seeded.is_empty() || p.seeded.len() > 12 { return None; }
    let cfg = to_config(&c.cfg);
    if cfg.validate().is_err() { return None; }
    // a negative rule's conclusion predicate must feed no premise (one top stratum), as in C05
    let neg_heads: BTreeSet<String> = p.rules.iter().filter(|r| !r.neg.is_empty()).flat_map(|r| r.conc.iter().map(|c| c.1.clone())).collect();
    if p.rules.iter().any(|r| r.prem.iter().chain(r.neg.iter()).any(|q| neg_heads.contains(&q.1))) { ctx.hit("unstratified_pipeline_skipped"); return None; }
    let build = || -> Option<(Reasoner, SeedSnapshot)> {
        let mut re = Reasoner::new();
        let enc = |re: &Reasoner, t: &str| re.dictionary.write().unwrap().encode(t);
        let mut specs = vec![];
        for (i, (f, pr)) in p.seeded.iter().enumerate() { let t = Triple { subject: enc(&re, &f.0), predicate: enc(&re, &f.1), object: enc(&re, &f.2) }; specs.push(SeedSpec::Independent { triple: t, prob: *pr, seed_id: i as u32 }); }
        if !p.group.is_empty() { let choices = p.group.iter().enumerate().map(|(i, (f, pr))| ExclusiveChoice { triple: Triple { subject: enc(&re, &f.0), predicate: enc(&re, &f.1), object: enc(&re, &f.2) }, prob: *pr, choice_id: 100 + i as u32 }).collect(); specs.push(SeedSpec::ExclusiveGroup { group_id: 7, choices }); }
        for f in &p.certain { re.add_abox_triple(&f.0, &f.1, &f.2); }
        for ru in &p.rules {
            let term = |re: &Reasoner, x: &str| if x.starts_with('?') { Term::Variable(x[1..].to_string()) } else { Term::Constant(enc(re, x)) };
            let pat = |re: &Reasoner, q: &dm::Pat| (term(re, &q.0), term(re, &q.1), term(re, &q.2));
            let rule = Rule { premise: ru.prem.iter().map(|q| pat(&re, q)).collect(), negative_premise: ru.neg.iter().map(|q| pat(&re, q)).collect(), filters: vec![], conclusion: ru.conc.iter().map(|q| pat(&re, q)).collect() };
            re.try_add_rule(rule).ok()?;
        }
        Some((re, SeedSnapshot::from_seed_specs(&specs).ok()?))
    };
    // possible-worlds oracle: a derived fact's probability = weight of the worlds (subsets of the seeded facts) in which it is in the stratified model
    let n = p.seeded.len();
    let certain: BTreeSet<Fact> = p.certain.iter().cloned().collect();
    let mut prob: std::collections::BTreeMap<Fact, f64> = std::collections::BTreeMap::new();
    let gchoices: Vec<Option<usize>> = if p.group.is_empty() { vec![None] } else { (0..p.group.len()).map(Some).collect() };
    for w in 0..(1u32 << n) {
        for gc in &gchoices {
            let mut weight = 1.0; let mut facts = certain.clone();
            for (i, (f, pr)) in p.seeded.iter().enumerate() { if (w >> i) & 1 == 1 { weight *= pr; facts.insert(f.clone()); } else { weight *= 1.0 - pr; } }
            if let Some(g) = gc { weight *= p.group[*g].1; facts.insert(p.group[*g].0.clone()); }
            if weight == 0.0 { continue; }
            for f in dm::stratified_model(&facts, &p.rules) { *prob.entry(f).or_insert(0.0) += weight; }
        }
    }
    if !p.group.is_empty() { ctx.hit("probe.pipeline_with_exclusive_group"); }
    let run = |step: u64, jump: u64| -> Option<(Result<Vec<(Fact, HybridProbabilityResult)>, String>, u64, bool)> {
        let (mut re, snap) = build()?;
        kolibrie_verif_rt::hybrid_clock::install(step, jump);
        let r = re.infer_new_facts_with_hybrid(snap, &cfg);
        let reads = kolibrie_verif_rt::hybrid_clock::reads(); let jumped = kolibrie_verif_rt::hybrid_clock::jumped();
        kolibrie_verif_rt::hybrid_clock::uninstall();
        let d = re.dictionary.read().unwrap();
        let out = r.map(|(_, results, _)| results.into_iter().map(|(t, res)| ((d.decode(t.subject).unwrap_or("?").to_string(), d.decode(t.predicate).unwrap_or("?").to_string(), d.decode(t.object).unwrap_or("?").to_string()), res)).collect::<Vec<_>>()).map_err(|e| e.to_string());
        Some((out, reads, jumped))
    };
    let Some((r0, reads, _)) = run(c.step_ns, 0) else { ctx.hit("pipeline_build_rejected_skipped"); return None };
    // ---- the retained materialisation is asked again under a second configuration (another threshold): each answer is judged
    // against the threshold of the call that produced it
    {
        let thr2 = if c.cfg.threshold < 0.5 { 0.5 + c.cfg.threshold * 0.9 } else { c.cfg.threshold * 0.4 };
        let mut cfg2 = cfg.clone(); cfg2.threshold = thr2;
        if cfg2.validate().is_ok() {
            if let Some((mut re, snap)) = build() {
                kolibrie_verif_rt::hybrid_clock::install(c.step_ns, 0);
                let out = re.infer_new_facts_with_hybrid(snap, &cfg);
                let second: Vec<(Fact, HybridProbabilityResult)> = match &out { Ok((_, _, mat)) => { let d = re.dictionary.read().unwrap(); mat.new_facts.iter().map(|t| ((d.decode(t.subject).unwrap_or("?").to_string(), d.decode(t.predicate).unwrap_or("?").to_string(), d.decode(t.object).unwrap_or("?").to_string()), mat.evaluate(t, &cfg2))).collect() } Err(_) => vec![] };
                kolibrie_verif_rt::hybrid_clock::uninstall();
                for (f, r) in &second { let pstar = prob.get(f).copied().unwrap_or(0.0); if let Some(mut v) = judge(r, pstar, thr2) { v.detail = format!("LineageMaterialization::evaluate asked again with threshold {} after infer_new_facts_with_hybrid at threshold {}: derived fact {:?}: {} [{:?}]", thr2, c.cfg.threshold, f, v.detail, r.reason()); v.class = format!("pipeline-{}", v.class); return Some(v); } }
                if !second.is_empty() { ctx.hit("probe.materialisation_evaluated_again_under_another_threshold"); }
            }
        }
    }
    let judge_all = |res: &Vec<(Fact, HybridProbabilityResult)>, tag: &str| -> Option<Violation> {
        for (f, r) in res { let pstar = prob.get(f).copied().unwrap_or(0.0); if let Some(mut v) = judge(r, pstar, c.cfg.threshold) { v.detail = format!("infer_new_facts_with_hybrid, {}: derived fact {:?}: {} [{:?}]", tag, f, v.detail, r.reason()); v.class = format!("pipeline-{}", v.class); return Some(v); } }
        None
    };
    match &r0 {
        Err(e) => { ctx.hit("pipeline_rejected_by_engine"); ev!(ctx.log, "pipeline rejected: {}", e); return None; }
        Ok(res) => {
            ev!(ctx.log, "pipeline fault-free: {} derived facts evaluated, reads={}", res.len(), reads);
            if let Some(v) = judge_all(res, "fault-free") { return Some(v); }
            // every fact of the model that is not a seed or certain fact must have been derived and evaluated
            let derived: BTreeSet<&Fact> = res.iter().map(|(f, _)| f).collect();
            for f in prob.keys() { if !certain.contains(f) && !p.seeded.iter().any(|(g, _)| g == f) && !p.group.iter().any(|(g, _)| g == f) && prob[f] > 1e-12 && !derived.contains(f) { return Some(Violation::new("pipeline-derivable-fact-not-evaluated", format!("fact {:?} is derivable with probability {} but infer_new_facts_with_hybrid returned no result for it", f, prob[f]))); } }
            if !res.is_empty() { ctx.hit("probe.pipeline_derived_facts_evaluated"); ctx.nontrivial(kolibrie_verif_rt::log::fnv(&format!("{:?}{:?}", p.seeded, p.rules))); }
        }
    }
    let js: Vec<u64> = match &c.faults { Faults::None => vec![], Faults::EveryReading => { let cap = if c.cap == 0 { 200 } else { c.cap }.min(400); if reads <= cap { (1..=reads).collect() } else { let stride = (reads / cap).max(1); (1..=reads).step_by(stride as usize).collect() } }, Faults::JumpAt(sel) => sel.iter().map(|s| 1 + s % reads.max(1)).collect() };
    for j in js {
        let Some((r, _, jumped)) = run(c.step_ns, j) else { continue };
        if jumped { ctx.hit("fault.clock_jump_at_reading"); }
        if let Ok(res) = &r { if let Some(v) = judge_all(res, &format!("clock jumps at reading {}/{}", j, reads)) { return Some(v); } }
    }
    ctx.hit("class.pipeline");
    ctx.sim_ns += reads * c.step_ns;
    None
}
