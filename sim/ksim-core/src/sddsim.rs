//! C07 — decision-diagram operations are exact, canonical and interruption-safe (DESIGN.md 6.5).
//! Fault seam: the `SddOperationBudget` closure (deadline at the k-th checkpoint) and `max_nodes` (allocation fault).
use kolibrie_verif_rt::harness::*;
use kolibrie_verif_rt::rng::Rng;
use kolibrie_verif_rt::ev;
use models::tt::TT;
use serde::{Deserialize, Serialize};
use shared::diff_sdd::wmc_gradient;
use shared::sdd::*;
use std::collections::HashMap;

#[derive(Serialize, Deserialize, Clone, Debug)]
pub struct VarDecl { pub id: u32, pub pos: f64, pub group: Option<u32> }
#[derive(Serialize, Deserialize, Clone, Debug, Default)]
pub struct OpFault { pub ks: Vec<u32>, pub ns: Vec<u32> }
#[derive(Serialize, Deserialize, Clone, Debug)]
pub enum Step {
    Var(usize),
    Reweight { v: usize, pos: f64 },
    Lit { v: usize, pol: bool },
    Apply { a: usize, b: usize, and: bool, f: OpFault },
    Neg { a: usize, f: OpFault },
    ExactlyOne { group: u32, f: OpFault },
}
#[derive(Serialize, Deserialize, Clone, Debug, PartialEq)]
pub enum Mode { NoFaults, Sample, Enumerate }
#[derive(Serialize, Deserialize, Clone, Debug)]
pub enum Kind { Hist { vars: Vec<VarDecl>, steps: Vec<Step> }, Sweep { a: u32, b_lo: u32, b_hi: u32 } }
#[derive(Serialize, Deserialize, Clone, Debug)]
pub struct SddCase { pub hash_seed: u64, pub mode: Mode, pub kind: Kind }

pub struct C07;

// ----- resolved operation on one manager
#[derive(Clone, Debug)]
enum ROp { Apply(SddId, SddId, BoolOp), Neg(SddId), ExactlyOne(Vec<u32>) }
fn run_plain(m: &mut SddManager, op: &ROp) -> SddId {
    match op { ROp::Apply(a, b, o) => m.apply(*a, *b, *o), ROp::Neg(a) => m.negate(*a), ROp::ExactlyOne(vs) => m.exactly_one(vs) }
}
fn run_try(m: &mut SddManager, op: &ROp, bu: &mut SddOperationBudget<'_>) -> Result<SddId, SddBudgetError> {
    match op { ROp::Apply(a, b, o) => m.try_apply(*a, *b, *o, bu), ROp::Neg(a) => m.try_negate(*a, bu), ROp::ExactlyOne(vs) => m.try_exactly_one(vs, bu) }
}

fn tt_of_models(m: &SddManager, id: SddId) -> TT {
    let models = m.enumerate_models(id);
    let mv: Vec<(usize, usize)> = models.iter().map(|md| { let mut mask = 0usize; let mut val = 0usize; for (v, p) in md { mask |= 1 << *v; if *p { val |= 1 << *v; } } (mask, val) }).collect();
    let mut t = TT::FALSE;
    for r in 0..256 { if mv.iter().any(|(mask, val)| r & mask == *val) { t.set(r); } }
    t
}

/// state of the abstract model: registered variables, weights, and the truth table of every handle
#[derive(Clone, Default)]
struct Model { reg: Vec<usize>, pos: Vec<f64>, neg: Vec<f64>, group: Vec<Option<u32>>, tts: Vec<TT> }
impl Model {
    fn new() -> Model { Model { reg: vec![], pos: vec![0.0; 8], neg: vec![1.0; 8], group: vec![None; 8], tts: vec![] } }
    fn groups(&self) -> Vec<(u32, Vec<usize>)> { let mut g: Vec<(u32, Vec<usize>)> = vec![]; for &v in &self.reg { if let Some(x) = self.group[v] { if let Some(e) = g.iter_mut().find(|e| e.0 == x) { e.1.push(v) } else { g.push((x, vec![v])) } } } g }
    /// the truth-table sum equals the diagram's count only if every exclusive variable is constrained (see DESIGN 6.5 (3))
    fn wmc_comparable(&self, t: TT) -> bool { self.groups().iter().all(|(_, vs)| t.implies(TT::exactly_one(vs))) }
    fn wmc(&self, t: TT) -> f64 { t.wsum(&self.reg, &self.pos, &self.neg) }
    fn grad(&self, t: TT, v: usize) -> f64 {
        let (mut p1, mut n1) = (self.pos.clone(), self.neg.clone());
        p1[v] = 1.0; n1[v] = 0.0;
        let a = t.wsum(&self.reg, &p1, &n1);
        if self.group[v].is_some() { a } else { p1[v] = 0.0; n1[v] = 1.0; a - t.wsum(&self.reg, &p1, &n1) }
    }
}

struct Mgr { m: SddManager, ids: Vec<SddId>, canon: HashMap<TT, SddId> }
impl Mgr { fn new() -> Mgr { Mgr { m: SddManager::new(), ids: vec![], canon: HashMap::new() } } }

fn register(m: &mut SddManager, d: &VarDecl, pos: f64) {
    match d.group { None => m.ensure_variable(d.id, pos), Some(g) => m.ensure_variable_weights(d.id, pos, 1.0, VarKind::ExclusiveGroup(g)) }
}

fn check_handle(which: &str, mg: &mut Mgr, model: &Model, idx: usize, grad: bool) -> Option<Violation> {
    let id = mg.ids[idx]; let tt = model.tts[idx];
    let got = tt_of_models(&mg.m, id);
    if got != tt { return Some(Violation::new("denotation", format!("manager {}: handle #{} ({:?}) denotes a different Boolean function than the formula (models {} vs expected {} rows)", which, idx, id, got.count(), tt.count()))); }
    if let Some(prev) = mg.canon.get(&tt) { if *prev != id { return Some(Violation::new("canonicity", format!("manager {}: equal functions got different handles {:?} and {:?} (handle #{})", which, prev, id, idx))); } } else { mg.canon.insert(tt, id); }
    if model.wmc_comparable(tt) {
        let w = mg.m.wmc(id); let e = model.wmc(tt);
        if (w - e).abs() > 1e-9 { return Some(Violation::new("wmc", format!("manager {}: wmc of handle #{} is {} but the truth-table sum is {}", which, idx, w, e))); }
        if grad {
            let g = wmc_gradient(&mut mg.m, id);
            for &v in &model.reg { let e = model.grad(tt, v); let gv = g.get(&(v as u32)).copied().unwrap_or(0.0); if (gv - e).abs() > 1e-9 { return Some(Violation::new("gradient", format!("manager {}: d wmc / d p{} of handle #{} is {} but the truth-table derivative is {}", which, v, idx, gv, e))); } }
            // the gradient must leave the weights as they were
            let w2 = mg.m.wmc(id); if (w2 - w).abs() > 1e-12 { return Some(Violation::new("gradient", format!("manager {}: wmc_gradient changed the manager's weights (wmc {} -> {})", which, w, w2))); }
        }
    }
    None
}
fn check_all(which: &str, mg: &mut Mgr, model: &Model) -> Option<Violation> { for i in 0..mg.ids.len() { if let Some(v) = check_handle(which, mg, model, i, false) { return Some(v); } } None }

/// resolve a step against the model; returns the abstract op (operand handle indices) and the result truth table
enum AOp { Apply(usize, usize, bool), Neg(usize), ExactlyOne(Vec<usize>) }
fn resolve(op: &AOp, ids: &[SddId]) -> ROp {
    match op { AOp::Apply(a, b, and) => ROp::Apply(ids[*a], ids[*b], if *and { BoolOp::And } else { BoolOp::Or }), AOp::Neg(a) => ROp::Neg(ids[*a]), AOp::ExactlyOne(vs) => ROp::ExactlyOne(vs.iter().map(|&v| v as u32).collect()) }
}

/// replay the (already interpreted) history prefix into a fresh manager with plain operations
#[derive(Clone)]
enum Done { Var(VarDecl, f64), Lit(usize, bool), Op(std::rc::Rc<AOp>) }
fn replay_prefix(done: &[Done]) -> (SddManager, Vec<SddId>) {
    let mut m = SddManager::new(); let mut ids = vec![];
    for d in done {
        match d {
            Done::Var(vd, pos) => register(&mut m, vd, *pos),
            Done::Lit(v, pol) => ids.push(m.literal(*v as u32, *pol)),
            Done::Op(op) => { let r = resolve(op, &ids); ids.push(run_plain(&mut m, &r)); }
        }
    }
    (m, ids)
}
fn count_checkpoints(done: &[Done], op: &AOp) -> (u64, usize, usize) {
    let (mut m, ids) = replay_prefix(done);
    let before = m.node_count();
    let mut n = 0u64; let mut cb = || { n += 1; true };
    let r = { let mut bu = SddOperationBudget::new(usize::MAX, &mut cb); run_try(&mut m, &resolve(op, &ids), &mut bu) };
    let _ = r;
    (n, before, m.node_count())
}

struct FaultStats { deadline_fired: u64, node_fired: u64, attempts: u64, ok_under_fault: u64 }

/// one budgeted attempt; `k` = checkpoint at which the deadline expires (0 = never), `max_nodes` = node budget
fn attempt(m: &mut SddManager, rop: &ROp, k: u64, max_nodes: usize) -> (Result<SddId, SddBudgetError>, bool, u64) {
    let mut n = 0u64; let mut fired = false;
    let r = { let mut cb = || { n += 1; if k != 0 && n >= k { fired = true; false } else { true } }; let mut bu = SddOperationBudget::new(max_nodes, &mut cb); run_try(m, rop, &mut bu) };
    (r, fired, n)
}

fn exec_hist(vars: &[VarDecl], steps: &[Step], mode: &Mode, ctx: &mut Ctx) -> Option<Violation> {
    let mut model = Model::new();
    let mut a = Mgr::new(); let mut b = Mgr::new();
    let mut done: Vec<Done> = vec![];
    let mut fs = FaultStats { deadline_fired: 0, node_fired: 0, attempts: 0, ok_under_fault: 0 };
    let mut ops = 0u64;
    for (si, st) in steps.iter().enumerate() {
        // ---- interpret the step against the abstract model
        let aop: AOp = match st {
            Step::Var(i) => {
                if vars.is_empty() { continue; }
                let d = &vars[*i % vars.len()]; let v = d.id as usize;
                if model.reg.contains(&v) || model.reg.len() >= 8 { continue; }
                model.reg.push(v); model.pos[v] = d.pos.clamp(0.0, 1.0); model.neg[v] = if d.group.is_some() { 1.0 } else { 1.0 - d.pos.clamp(0.0, 1.0) }; model.group[v] = d.group;
                register(&mut a.m, d, d.pos); register(&mut b.m, d, d.pos); done.push(Done::Var(d.clone(), d.pos));
                ev!(ctx.log, "{} var {} pos={} group={:?}", si, v, d.pos, d.group);
                if !model.tts.is_empty() { ctx.hit("probe.vtree_grew_with_live_diagrams"); }
                continue;
            }
            Step::Reweight { v, pos } => {
                if model.reg.is_empty() { continue; }
                let v = model.reg[*v % model.reg.len()];
                let d = vars.iter().find(|d| d.id as usize == v).unwrap().clone();
                model.pos[v] = pos.clamp(0.0, 1.0); if d.group.is_none() { model.neg[v] = 1.0 - pos.clamp(0.0, 1.0); }
                register(&mut a.m, &d, *pos); register(&mut b.m, &d, *pos); done.push(Done::Var(d, *pos));
                ev!(ctx.log, "{} reweight {} pos={}", si, v, pos);
                continue;
            }
            Step::Lit { v, pol } => {
                if model.reg.is_empty() { continue; }
                let v = model.reg[*v % model.reg.len()];
                model.tts.push(TT::lit(v, *pol));
                a.ids.push(a.m.literal(v as u32, *pol)); b.ids.push(b.m.literal(v as u32, *pol)); done.push(Done::Lit(v, *pol));
                let idx = model.tts.len() - 1;
                ev!(ctx.log, "{} lit {} {} -> #{} {:?}", si, v, pol, idx, a.ids[idx]);
                if let Some(x) = check_handle("A", &mut a, &model, idx, true) { return Some(x); }
                if let Some(x) = check_handle("B", &mut b, &model, idx, true) { return Some(x); }
                continue;
            }
            Step::Apply { a: x, b: y, and, .. } => { if model.tts.is_empty() { continue; } let n = model.tts.len(); AOp::Apply(*x % n, *y % n, *and) }
            Step::Neg { a: x, .. } => { if model.tts.is_empty() { continue; } AOp::Neg(*x % model.tts.len()) }
            Step::ExactlyOne { group, .. } => { let vs: Vec<usize> = model.reg.iter().copied().filter(|&v| model.group[v] == Some(*group)).collect(); if vs.is_empty() { continue; } AOp::ExactlyOne(vs) }
        };
        let fault = match st { Step::Apply { f, .. } | Step::Neg { f, .. } | Step::ExactlyOne { f, .. } => f.clone(), _ => OpFault::default() };
        let tt = match &aop { AOp::Apply(x, y, and) => if *and { model.tts[*x].and(model.tts[*y]) } else { model.tts[*x].or(model.tts[*y]) }, AOp::Neg(x) => model.tts[*x].not(), AOp::ExactlyOne(vs) => TT::exactly_one(vs) };
        ops += 1;
        // ---- manager A: plain operation
        let ra = run_plain(&mut a.m, &resolve(&aop, &a.ids));
        // ---- manager B: budgeted operation under the fault plan
        let rb_op = resolve(&aop, &b.ids);
        let mut result_b: Option<SddId> = None;
        if *mode != Mode::NoFaults {
            let (kk, nodes_before, nodes_after) = count_checkpoints(&done, &aop);
            let needed = nodes_after - nodes_before;
            ctx.count("checkpoints_counted", kk);
            if kk > 1 { ctx.hit("probe.op_with_multiple_checkpoints"); }
            // (a) fresh-state enumeration: every interruption point from the clean pre-state
            if *mode == Mode::Enumerate {
                for k in 1..=kk {
                    let (mut m, ids) = replay_prefix(&done);
                    let rop = resolve(&aop, &ids);
                    let (r, fired, _) = attempt(&mut m, &rop, k, usize::MAX);
                    fs.attempts += 1;
                    let mut sm = Mgr { m, ids, canon: HashMap::new() };
                    match r {
                        Ok(id) => { if !fired { fs.ok_under_fault += 1; } sm.ids.push(id); model.tts.push(tt); let v = check_handle("fresh", &mut sm, &model, model.tts.len() - 1, false); model.tts.pop(); if let Some(mut v) = v { v.detail = format!("step {} deadline at checkpoint {}/{} from the clean pre-state returned Ok: {}", si, k, kk, v.detail); v.class = format!("budgeted-ok-{}", v.class); return Some(v); } }
                        Err(SddBudgetError::DeadlineExceeded) if fired => {
                            fs.deadline_fired += 1;
                            if let Some(mut v) = check_all("fresh", &mut sm, &model) { v.detail = format!("step {} after exhaustion at checkpoint {}/{} (clean pre-state): {}", si, k, kk, v.detail); v.class = format!("after-exhaustion-{}", v.class); return Some(v); }
                            let id = run_plain(&mut sm.m, &rop); sm.ids.push(id); model.tts.push(tt);
                            let v = check_handle("fresh", &mut sm, &model, model.tts.len() - 1, false); model.tts.pop();
                            if let Some(mut v) = v { v.detail = format!("step {} unbudgeted retry after exhaustion at checkpoint {}/{} (clean pre-state): {}", si, k, kk, v.detail); v.class = format!("after-exhaustion-{}", v.class); return Some(v); }
                        }
                        Err(e) => return Some(Violation::new("spurious-exhaustion", format!("step {}: {:?} reported although the armed fault (deadline at checkpoint {}) had fired={} ", si, e, k, fired))),
                    }
                }
                // node budgets from the clean pre-state: current .. current+needed
                for extra in 0..=needed {
                    let (mut m, ids) = replay_prefix(&done);
                    let rop = resolve(&aop, &ids);
                    let maxn = m.node_count() + extra;
                    let (r, _, _) = attempt(&mut m, &rop, 0, maxn);
                    fs.attempts += 1;
                    if m.node_count() > maxn { return Some(Violation::new("node-budget-overrun", format!("step {}: node budget {} but the manager holds {} nodes", si, maxn, m.node_count()))); }
                    let mut sm = Mgr { m, ids, canon: HashMap::new() };
                    match r {
                        Ok(id) => { sm.ids.push(id); model.tts.push(tt); let v = check_handle("fresh", &mut sm, &model, model.tts.len() - 1, false); model.tts.pop(); if let Some(mut v) = v { v.class = format!("budgeted-ok-{}", v.class); v.detail = format!("step {} node budget +{}: {}", si, extra, v.detail); return Some(v); } }
                        Err(SddBudgetError::NodeBudgetExceeded) => {
                            fs.node_fired += 1;
                            if let Some(mut v) = check_all("fresh", &mut sm, &model) { v.class = format!("after-exhaustion-{}", v.class); v.detail = format!("step {} after node-budget exhaustion (+{}): {}", si, extra, v.detail); return Some(v); }
                            let id = run_plain(&mut sm.m, &rop); sm.ids.push(id); model.tts.push(tt);
                            let v = check_handle("fresh", &mut sm, &model, model.tts.len() - 1, false); model.tts.pop();
                            if let Some(mut v) = v { v.class = format!("after-exhaustion-{}", v.class); v.detail = format!("step {} retry after node-budget exhaustion (+{}): {}", si, extra, v.detail); return Some(v); }
                        }
                        Err(e) => return Some(Violation::new("spurious-exhaustion", format!("step {}: {:?} reported although only a node budget was armed", si, e))),
                    }
                }
            }
            // (b) cumulative mode on B itself: attempts run on the residue of earlier interrupted attempts
            let mut plan: Vec<(u64, usize)> = vec![]; // (k, extra nodes or usize::MAX)
            if *mode == Mode::Enumerate { for k in 1..=kk { plan.push((k, usize::MAX)); } for e in 0..=needed { plan.push((0, e)); } }
            else {
                let mut ks: Vec<u64> = fault.ks.iter().map(|s| 1 + (*s as u64 % kk.max(1))).collect(); ks.sort(); ks.dedup();
                for k in ks { plan.push((k, usize::MAX)); }
                for s in &fault.ns { plan.push((0, (*s as usize) % (needed + 1))); }
            }
            for (k, extra) in plan {
                let maxn = if extra == usize::MAX { usize::MAX } else { b.m.node_count() + extra };
                let (r, fired, _) = attempt(&mut b.m, &rb_op, k, maxn);
                fs.attempts += 1;
                if maxn != usize::MAX && b.m.node_count() > maxn { return Some(Violation::new("node-budget-overrun", format!("step {}: node budget {} but manager B holds {} nodes", si, maxn, b.m.node_count()))); }
                match r {
                    Ok(id) => { if k != 0 && !fired || k == 0 { fs.ok_under_fault += 1; } result_b = Some(id); ev!(ctx.log, "{} B ok under k={} extra={} -> {:?}", si, k, extra as i64, id); break; }
                    Err(SddBudgetError::DeadlineExceeded) if fired => { fs.deadline_fired += 1; ev!(ctx.log, "{} B deadline at k={}", si, k); }
                    Err(SddBudgetError::NodeBudgetExceeded) if maxn != usize::MAX => { fs.node_fired += 1; ev!(ctx.log, "{} B node budget +{}", si, extra); }
                    Err(e) => return Some(Violation::new("spurious-exhaustion", format!("step {}: manager B reported {:?} although no such fault was armed (k={}, fired={}, node budget armed={})", si, e, k, fired, maxn != usize::MAX))),
                }
                // after exhaustion the manager still answers correctly for every old handle
                if let Some(mut v) = check_all("B", &mut b, &model) { v.class = format!("after-exhaustion-{}", v.class); v.detail = format!("step {} after exhaustion (k={}, extra={}): {}", si, k, extra as i64, v.detail); return Some(v); }
            }
        }
        let rb = match result_b {
            Some(id) => { let again = run_plain(&mut b.m, &rb_op); if again != id { return Some(Violation::new("budgeted-differs", format!("step {}: the budgeted operation returned {:?} but the unbudgeted one returns {:?} on the same manager", si, id, again))); } id }
            None => { let (r, _, _) = attempt(&mut b.m, &rb_op, 0, usize::MAX); match r { Ok(id) => id, Err(e) => return Some(Violation::new("spurious-exhaustion", format!("step {}: unlimited budget reported {:?}", si, e))) } }
        };
        model.tts.push(tt); a.ids.push(ra); b.ids.push(rb); done.push(Done::Op(std::rc::Rc::new(aop)));
        let idx = model.tts.len() - 1;
        ev!(ctx.log, "{} op -> #{} A={:?} B={:?} tt={:016x}", si, idx, ra, rb, tt.hash64());
        ctx.state(tt.hash64() ^ (model.reg.len() as u64) << 56);
        if let Some(x) = check_handle("A", &mut a, &model, idx, true) { return Some(x); }
        if let Some(x) = check_handle("B", &mut b, &model, idx, true) { return Some(x); }
    }
    // end of history: everything still holds on both managers (vtree growth, reweighting, exhaustions in between)
    if let Some(x) = check_all("A", &mut a, &model) { return Some(x); }
    if let Some(x) = check_all("B", &mut b, &model) { return Some(x); }
    ctx.count("fault.deadline_at_kth_checkpoint", fs.deadline_fired);
    ctx.count("fault.node_budget", fs.node_fired);
    ctx.count("budgeted_attempts", fs.attempts);
    ctx.count("budgeted_ok_despite_armed_fault", fs.ok_under_fault);
    ctx.count("operations", ops);
    if *mode == Mode::NoFaults { ctx.hit("class.fault_free"); } else { ctx.hit("class.faulted"); }
    let distinct_tts: std::collections::HashSet<TT> = model.tts.iter().copied().collect();
    if ops >= 3 && distinct_tts.len() >= 4 { let mut h = 0u64; for t in &model.tts { h = h.rotate_left(7) ^ t.hash64(); } ctx.nontrivial(h ^ fs.deadline_fired.rotate_left(40)); }
    None
}

/// canonical DNF construction of the function with truth table `t` over variables 0..3
fn build_dnf(m: &mut SddManager, t: u32) -> SddId {
    let mut acc = SddId::FALSE;
    for row in 0..8u32 {
        if (t >> row) & 1 == 1 {
            let mut term = SddId::TRUE;
            for v in 0..3u32 { let l = m.literal(v, (row >> v) & 1 == 1); term = m.apply(term, l, BoolOp::And); }
            acc = m.apply(acc, term, BoolOp::Or);
        }
    }
    acc
}
fn tt3(t: u32) -> TT { let mut r = TT::FALSE; for row in 0..256usize { if (t >> (row & 7)) & 1 == 1 { r.set(row); } } r }

fn exec_sweep(a: u32, b_lo: u32, b_hi: u32, ctx: &mut Ctx) -> Option<Violation> {
    let fresh = |order: u32| { let mut m = SddManager::new(); let ord = [[0u32, 1, 2], [2, 1, 0], [1, 0, 2]][(order % 3) as usize]; for v in ord { m.ensure_variable(v, 0.5); } m };
    let (mut deadline_fired, mut attempts) = (0u64, 0u64);
    for b in b_lo..b_hi {
        for and in [true, false] {
            let op = if and { BoolOp::And } else { BoolOp::Or };
            let expect = if and { tt3(a).and(tt3(b)) } else { tt3(a).or(tt3(b)) };
            let order = a ^ b;
            let mut m0 = fresh(order); let ia = build_dnf(&mut m0, a); let ib = build_dnf(&mut m0, b);
            let mut n = 0u64; { let mut cb = || { n += 1; true }; let mut bu = SddOperationBudget::new(usize::MAX, &mut cb); let r = m0.try_apply(ia, ib, op, &mut bu); match r { Ok(id) => { if tt_of_models(&m0, id) != expect { return Some(Violation::new("denotation", format!("sweep a={:#04x} b={:#04x} {:?}: wrong function", a, b, op))); } } Err(e) => return Some(Violation::new("spurious-exhaustion", format!("sweep a={:#04x} b={:#04x}: {:?} with unlimited budget", a, b, e))) } }
            let kk = n;
            for k in 1..=kk {
                let mut m = fresh(order); let ia = build_dnf(&mut m, a); let ib = build_dnf(&mut m, b);
                let (r, fired, _) = attempt(&mut m, &ROp::Apply(ia, ib, op), k, usize::MAX);
                attempts += 1;
                let id = match r {
                    Ok(id) => id,
                    Err(SddBudgetError::DeadlineExceeded) if fired => {
                        deadline_fired += 1;
                        if tt_of_models(&m, ia) != tt3(a) || tt_of_models(&m, ib) != tt3(b) { return Some(Violation::new("after-exhaustion-denotation", format!("sweep a={:#04x} b={:#04x} {:?} k={}/{}: operands changed meaning after exhaustion", a, b, op, k, kk))); }
                        m.apply(ia, ib, op)
                    }
                    Err(e) => return Some(Violation::new("spurious-exhaustion", format!("sweep a={:#04x} b={:#04x} k={}: {:?}, fired={}", a, b, k, e, fired))),
                };
                if tt_of_models(&m, id) != expect { return Some(Violation::new("after-exhaustion-denotation", format!("sweep a={:#04x} b={:#04x} {:?} k={}/{}: result denotes the wrong function", a, b, op, k, kk))); }
                // canonicity: building the expected function directly must give the same handle
                let et = (0..8u32).filter(|r| expect.get(*r as usize)).fold(0u32, |acc, r| acc | 1 << r);
                let direct = build_dnf(&mut m, et);
                if direct != id { return Some(Violation::new("after-exhaustion-canonicity", format!("sweep a={:#04x} b={:#04x} {:?} k={}/{}: result {:?} but the same function built directly is {:?}", a, b, op, k, kk, id, direct))); }
            }
            ctx.nontrivial(((a as u64) << 20) | ((b as u64) << 4) | and as u64);
        }
    }
    ev!(ctx.log, "sweep a={} b={}..{} attempts={} fired={}", a, b_lo, b_hi, attempts, deadline_fired);
    ctx.count("fault.deadline_at_kth_checkpoint", deadline_fired);
    ctx.count("budgeted_attempts", attempts);
    ctx.count("sweep_operand_pairs", 2 * (b_hi - b_lo) as u64);
    ctx.hit("class.sweep");
    None
}

fn gen_fault(r: &mut Rng) -> OpFault { OpFault { ks: (0..3).map(|_| r.next() as u32).collect(), ns: (0..2).map(|_| r.next() as u32).collect() } }

impl Prop for C07 {
    type Case = SddCase;
    fn id(&self) -> &'static str { "C07" }
    fn expected_counters(&self) -> Vec<&'static str> { vec!["probe.vtree_grew_with_live_diagrams", "probe.op_with_multiple_checkpoints", "fault.deadline_at_kth_checkpoint", "fault.node_budget"] }
    fn level(&self) -> &'static str { "fault_enumeration" }
    fn budget(&self, tier: Tier) -> Budget { match tier { Tier::Quick => Budget { runs: 20_000, wall_s: 60, recheck: 40 }, Tier::Thorough => Budget { runs: 1_200_000, wall_s: 1000, recheck: 200 } } }
    fn hash_seed(&self, c: &SddCase) -> u64 { c.hash_seed }
    fn gen(&self, seed: u64, index: u64, tier: Tier) -> SddCase {
        let mut r = Rng::sub(seed, "workload");
        let hash_seed = Rng::sub(seed, "hash").next();
        // thorough: the first 2048 run seeds carry the exhaustive 3-variable operand-pair sweep (256 x 256 x 2), 32 b's each
        if tier == Tier::Thorough && index < 2048 { let a = (index / 8) as u32; let lo = (index % 8) as u32 * 32; return SddCase { hash_seed, mode: Mode::Enumerate, kind: Kind::Sweep { a, b_lo: lo, b_hi: lo + 32 } }; }
        let mut cfg = Rng::sub(seed, "swarm");
        let nv = 1 + cfg.usize(8);
        let with_groups = cfg.chance(1, 3);
        let mode = match tier { Tier::Quick => if cfg.chance(1, 5) { Mode::NoFaults } else if cfg.chance(1, 6) { Mode::Enumerate } else { Mode::Sample }, Tier::Thorough => if cfg.chance(1, 8) { Mode::NoFaults } else if cfg.chance(1, 2) { Mode::Enumerate } else { Mode::Sample } };
        let mut ids: Vec<u32> = (0..8).collect(); r.shuffle(&mut ids); ids.truncate(nv);
        let mut vars: Vec<VarDecl> = ids.iter().map(|&id| VarDecl { id, pos: match r.below(6) { 0 => 0.0, 1 => 1.0, 2 => 0.5, _ => (r.below(1000) as f64) / 1000.0 }, group: None }).collect();
        if with_groups && nv >= 2 {
            // one or two exclusive groups whose probabilities sum to 1
            let ng = 1 + r.usize(2.min(nv / 2));
            let mut pos = 0;
            for g in 0..ng { let sz = 2 + r.usize(2); if pos + sz > nv { break; } let mut w: Vec<f64> = (0..sz).map(|_| 1.0 + r.below(9) as f64).collect(); let s: f64 = w.iter().sum(); for x in w.iter_mut() { *x /= s; } for k in 0..sz { vars[pos + k].group = Some(g as u32); vars[pos + k].pos = w[k]; } pos += sz; }
        }
        let nsteps = match mode { Mode::Enumerate => 5 + r.usize(25), _ => 5 + r.usize(56) };
        let mut steps = vec![];
        let w_var = 1 + cfg.below(3) as u32; let w_neg = 1 + cfg.below(3) as u32; let w_x1 = if with_groups { 2 } else { 0 };
        for _ in 0..nsteps {
            let s = match r.weighted(&[w_var, 1, 3, 6, w_neg, w_x1]) {
                0 => Step::Var(r.usize(nv)),
                1 => Step::Reweight { v: r.usize(8), pos: (r.below(1000) as f64) / 1000.0 },
                2 => Step::Lit { v: r.usize(8), pol: r.chance(1, 2) },
                3 => { let n = 64; let a = r.usize(n); let b = if r.chance(1, 3) { a.saturating_sub(1 + r.usize(3)) } else { r.usize(n) }; Step::Apply { a, b, and: r.chance(1, 2), f: gen_fault(&mut r) } }
                4 => Step::Neg { a: r.usize(64), f: gen_fault(&mut r) },
                _ => Step::ExactlyOne { group: r.below(2) as u32, f: gen_fault(&mut r) },
            };
            steps.push(s);
        }
        // reweighting an exclusive variable would break the "group sums to one" convention used by the wmc oracle
        let steps = steps.into_iter().filter(|s| !(with_groups && matches!(s, Step::Reweight { .. }))).collect();
        SddCase { hash_seed, mode, kind: Kind::Hist { vars, steps } }
    }
    fn exec(&self, c: &SddCase, ctx: &mut Ctx) -> Option<Violation> {
        match &c.kind { Kind::Hist { vars, steps } => exec_hist(vars, steps, &c.mode, ctx), Kind::Sweep { a, b_lo, b_hi } => exec_sweep(*a, *b_lo, *b_hi, ctx) }
    }
    fn shrink(&self, c: &SddCase) -> Vec<SddCase> {
        let mut out = vec![];
        if let Kind::Hist { vars, steps } = &c.kind {
            for s in shrink_vec(steps) { out.push(SddCase { kind: Kind::Hist { vars: vars.clone(), steps: s }, ..c.clone() }); }
            if c.mode == Mode::Enumerate { out.push(SddCase { mode: Mode::Sample, ..c.clone() }); }
            if c.mode != Mode::NoFaults { out.push(SddCase { mode: Mode::NoFaults, ..c.clone() }); }
            if c.hash_seed != 0 { out.push(SddCase { hash_seed: 0, ..c.clone() }); }
            for (i, v) in vars.iter().enumerate() { if v.group.is_some() { let mut vs = vars.clone(); vs[i].group = None; out.push(SddCase { kind: Kind::Hist { vars: vs, steps: steps.clone() }, ..c.clone() }); } }
            // fewer armed faults per operation
            for (i, s) in steps.iter().enumerate() {
                let f = match s { Step::Apply { f, .. } | Step::Neg { f, .. } | Step::ExactlyOne { f, .. } => f, _ => continue };
                if f.ks.len() + f.ns.len() > 1 {
                    for drop in 0..(f.ks.len() + f.ns.len()) {
                        let mut nf = f.clone(); if drop < nf.ks.len() { nf.ks.remove(drop); } else { nf.ns.remove(drop - f.ks.len()); }
                        let mut st = steps.clone();
                        st[i] = match s.clone() { Step::Apply { a, b, and, .. } => Step::Apply { a, b, and, f: nf }, Step::Neg { a, .. } => Step::Neg { a, f: nf }, Step::ExactlyOne { group, .. } => Step::ExactlyOne { group, f: nf }, x => x };
                        out.push(SddCase { kind: Kind::Hist { vars: vars.clone(), steps: st }, ..c.clone() });
                    }
                }
            }
        } else if let Kind::Sweep { a, b_lo, b_hi } = &c.kind {
            if b_hi - b_lo > 1 { let mid = (b_lo + b_hi) / 2; out.push(SddCase { kind: Kind::Sweep { a: *a, b_lo: *b_lo, b_hi: mid }, ..c.clone() }); out.push(SddCase { kind: Kind::Sweep { a: *a, b_lo: mid, b_hi: *b_hi }, ..c.clone() }); }
        }
        out
    }
    fn rule(&self) -> String { "A case is one operation history on two SddManagers (A plain, B budgeted) plus a fault plan (deadline at the k-th checkpoint, node budget n; sampled, or every k and every n in Enumerate mode, from the clean pre-state and cumulatively), or one block of the exhaustive 3-variable operand-pair sweep. Non-trivial = at least 3 apply/negate/exactly-one operations producing at least 4 distinct Boolean functions; distinct = hash of the sequence of truth tables and number of fired deadline faults (sweep: distinct (a,b,op) triples).".into() }
    fn assumptions(&self) -> Vec<String> { vec![
        "truth tables over <= 8 variables are the oracle; enumerate_models is used as the observation of a handle's denotation".into(),
        "wmc/gradient are compared with the truth-table sums only for handles that constrain every registered exclusive-group variable by its group's exactly-one (the way compile_lineage_to_sdd uses such weights)".into(),
        "SddManager is not Clone: the clean pre-state of an operation is re-created by replaying the history prefix with plain operations".into(),
        "release-profile semantics (no debug assertions / overflow checks)".into() ] }
    fn real_vs_stub(&self) -> serde_json::Value { serde_json::json!({"real": ["shared::sdd::SddManager (apply, negate, exactly_one, try_*, wmc, enumerate_models, ensure_variable_weights)", "shared::diff_sdd::wmc_gradient"], "simulated": ["SddOperationBudget deadline closure (fault injector)", "max_nodes (allocation fault)", "std RandomState keys (getrandom interposer)"], "not_run": ["SddProvenance wrapper"]}) }
}
