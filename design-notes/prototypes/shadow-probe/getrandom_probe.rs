// hash-seed interposition probe: defining `getrandom` in the binary makes std's RandomState a function of SEED
use std::collections::HashMap;
use std::sync::atomic::{AtomicU64, Ordering};
static SEED: AtomicU64 = AtomicU64::new(0x1234);
static CALLS: AtomicU64 = AtomicU64::new(0);
#[no_mangle]
pub unsafe extern "C" fn getrandom(buf: *mut libc::c_void, len: libc::size_t, _flags: libc::c_uint) -> libc::ssize_t {
    CALLS.fetch_add(1, Ordering::Relaxed);
    let mut x = SEED.load(Ordering::Relaxed);
    let p = buf as *mut u8;
    for i in 0..len { x = x.wrapping_mul(6364136223846793005).wrapping_add(1442695040888963407); *p.add(i) = (x >> 33) as u8; }
    len as libc::ssize_t
}
fn main() {
    let seed: u64 = std::env::args().nth(1).map(|s| s.parse().unwrap()).unwrap_or(1);
    SEED.store(seed, Ordering::Relaxed);
    let mut m = HashMap::new();
    for i in 0..12u32 { m.insert(i, i); }
    let order: Vec<u32> = m.keys().copied().collect();
    // observed: same order for the same seed, different orders for seeds 1/2/3, calls=1
    println!("seed={} calls={} order={:?}", seed, CALLS.load(Ordering::Relaxed), order);
}
