//! probe-quality sequential model of the rayon subset Kolibrie uses ([lib] name = "rayon")
pub fn current_num_threads() -> usize { 4 }
pub mod str {}
pub mod iter {
    pub struct Par<I: Iterator> { pub(crate) inner: I }
    impl<I: Iterator> Par<I> {
        pub fn map<U, F: Fn(I::Item) -> U + Sync + Send>(self, f: F) -> Par<std::iter::Map<I, F>> { Par { inner: self.inner.map(f) } }
        pub fn filter<F: Fn(&I::Item) -> bool + Sync + Send>(self, f: F) -> Par<std::iter::Filter<I, F>> { Par { inner: self.inner.filter(f) } }
        pub fn filter_map<U, F: Fn(I::Item) -> Option<U> + Sync + Send>(self, f: F) -> Par<std::iter::FilterMap<I, F>> { Par { inner: self.inner.filter_map(f) } }
        pub fn flat_map<U: IntoIterator, F: Fn(I::Item) -> U + Sync + Send>(self, f: F) -> Par<std::iter::FlatMap<I, U, F>> { Par { inner: self.inner.flat_map(f) } }
        pub fn flat_map_iter<U: IntoIterator, F: Fn(I::Item) -> U + Sync + Send>(self, f: F) -> Par<std::iter::FlatMap<I, U, F>> { Par { inner: self.inner.flat_map(f) } }
        pub fn fold<T, ID: Fn() -> T + Sync + Send, F: Fn(T, I::Item) -> T + Sync + Send>(self, identity: ID, f: F) -> Par<std::vec::IntoIter<T>> {
            let items: Vec<I::Item> = self.inner.collect();
            let mid = items.len() / 2; let mut it = items.into_iter();
            let mut a = identity(); for _ in 0..mid { a = f(a, it.next().unwrap()); }
            let mut b = identity(); for x in it { b = f(b, x); }
            Par { inner: vec![a, b].into_iter() }
        }
        pub fn reduce<ID: Fn() -> I::Item + Sync + Send, F: Fn(I::Item, I::Item) -> I::Item + Sync + Send>(self, identity: ID, f: F) -> I::Item { self.inner.fold(identity(), |a, b| f(a, b)) }
        pub fn collect<C: FromIterator<I::Item>>(self) -> C { self.inner.collect() }
        pub fn for_each<F: Fn(I::Item) + Sync + Send>(self, f: F) { self.inner.for_each(f) }
        pub fn count(self) -> usize { self.inner.count() }
    }
    pub trait IntoParallelIterator { type Iter: Iterator<Item = Self::Item>; type Item; fn into_par_iter(self) -> Par<Self::Iter>; }
    impl<T: IntoIterator> IntoParallelIterator for T { type Iter = T::IntoIter; type Item = T::Item; fn into_par_iter(self) -> Par<T::IntoIter> { Par { inner: self.into_iter() } } }
    pub trait IntoParallelRefIterator<'a> { type Iter: Iterator<Item = Self::Item>; type Item: 'a; fn par_iter(&'a self) -> Par<Self::Iter>; }
    impl<'a, C: 'a + ?Sized> IntoParallelRefIterator<'a> for C where &'a C: IntoIterator { type Iter = <&'a C as IntoIterator>::IntoIter; type Item = <&'a C as IntoIterator>::Item; fn par_iter(&'a self) -> Par<Self::Iter> { Par { inner: self.into_iter() } } }
    pub trait ParallelSlice<T> { fn par_chunks(&self, n: usize) -> Par<std::slice::Chunks<'_, T>>; }
    impl<T> ParallelSlice<T> for [T] { fn par_chunks(&self, n: usize) -> Par<std::slice::Chunks<'_, T>> { Par { inner: self.chunks(n) } } }
}
pub mod prelude { pub use crate::iter::{IntoParallelIterator, IntoParallelRefIterator, ParallelSlice}; }
