// C08 prototype: lineage DAGs under a simulated HybridClock, jump at every reading, possible-worlds oracle
// (DESIGN.md 6.6 / 10.1). Independent seeds only; exclusive groups are left to the real check.
use shared::hybrid::*;
use shared::seed_spec::*;
use shared::triple::Triple;
use std::sync::{Arc, Mutex};
use std::sync::atomic::{AtomicU64, Ordering};
use std::time::{Duration, Instant};
fn lcg(x:&mut u64)->u64{ *x = x.wrapping_mul(6364136223846793005).wrapping_add(1442695040888963407); *x>>33 }
struct SimClock { base: Instant, nanos: AtomicU64, step: u64, reads: AtomicU64, jump_at: u64 }
impl HybridClock for SimClock { fn now(&self)->Instant { let r=self.reads.fetch_add(1,Ordering::Relaxed)+1; if r==self.jump_at { self.nanos.fetch_add(3_600_000_000_000,Ordering::Relaxed); } let n=self.nanos.fetch_add(self.step,Ordering::Relaxed); self.base+Duration::from_nanos(n) } }
fn truth(store:&LineageStore,id:LineageId,world:u32,ids:&[SeedId])->bool{ match store.node(id){ LineageNode::False=>false, LineageNode::True=>true, LineageNode::Literal(s)=>{ let i=ids.iter().position(|x|x==s).unwrap(); world>>i&1==1 }, LineageNode::Not(c)=>!truth(store,*c,world,ids), LineageNode::And(cs)=>cs.iter().all(|c|truth(store,*c,world,ids)), LineageNode::Or(cs)=>cs.iter().any(|c|truth(store,*c,world,ids)) } }
fn main(){
    let mut seed=99u64; let (mut runs, mut faults, mut unsound)=(0u64,0u64,0u64); let mut kinds=std::collections::BTreeMap::new();
    for case in 0..1500 {
        let n=2+(lcg(&mut seed)%8) as usize; let nonmono=lcg(&mut seed)%4==0;
        let probs:Vec<f64>=(0..n).map(|_| match lcg(&mut seed)%6 {0=>0.0,1=>1.0,2=>0.5,3=>0.999,_=>(lcg(&mut seed)%1000) as f64/1000.0}).collect();
        let specs:Vec<SeedSpec>=(0..n).map(|i| SeedSpec::Independent{triple:Triple{subject:i as u32,predicate:100,object:200},prob:probs[i],seed_id:i as u32}).collect();
        let snap=Arc::new(SeedSnapshot::from_seed_specs(&specs).unwrap());
        let ids:Vec<SeedId>=snap.records().map(|r|r.id).collect();
        let mut store=LineageStore::new(); let mut nodes:Vec<LineageId>=ids.iter().map(|i|store.literal(*i)).collect();
        let steps=3+lcg(&mut seed)%25;
        for _ in 0..steps { let k=2+(lcg(&mut seed)%3) as usize; let ch:Vec<LineageId>=(0..k).map(|_| nodes[(lcg(&mut seed)%nodes.len() as u64) as usize]).collect(); let c=lcg(&mut seed)%10; let id= if nonmono && c==0 { store.not(ch[0]) } else if c%2==0 { store.and(ch) } else { store.or(ch) }; nodes.push(id); }
        let root=*nodes.last().unwrap();
        let mut pstar=0.0; for w in 0..(1u32<<n) { if truth(&store,root,w,&ids) { let mut p=1.0; for i in 0..n { p*= if w>>i&1==1 {probs[i]} else {1.0-probs[i]}; } pstar+=p; } }
        let cfg=HybridConfig{ threshold: match lcg(&mut seed)%5 {0=>0.0,1=>1.0,_=>(lcg(&mut seed)%1000) as f64/1000.0}, k_initial:1+(lcg(&mut seed)%3) as usize, k_max:3+(lcg(&mut seed)%10) as usize, k_growth:2+(lcg(&mut seed)%2) as usize, band_epsilon:(lcg(&mut seed)%100) as f64/1000.0, marginal_gain_floor: if lcg(&mut seed)%2==0 {0.0} else {1e-3}, topk_budget:Duration::from_millis(25), sdd_budget:Duration::from_millis(250), sdd_node_budget: if lcg(&mut seed)%5==0 { 2+(lcg(&mut seed)%30) as usize } else {100_000}, ..HybridConfig::default() };
        if cfg.validate().is_err() { continue; }
        let store=Arc::new(Mutex::new(store));
        let clk=SimClock{base:Instant::now(),nanos:AtomicU64::new(0),step:1000,reads:AtomicU64::new(0),jump_at:0};
        let r0=evaluate_hybrid_with_clock(&store,&snap,root,&cfg,&clk); let reads=clk.reads.load(Ordering::Relaxed);
        // soundness-only oracle: a result may degrade, never lie
        let mut check=|r:&HybridProbabilityResult, tag:&str| { runs+=1; *kinds.entry(r.status()).or_insert(0u64)+=1; let eps=1e-9; let th=cfg.threshold;
            let bad = match r { HybridProbabilityResult::Exact{probability,decision,..} => (probability-pstar).abs()>eps || (*decision==AlertDecision::Alert && pstar<th-eps) || (*decision==AlertDecision::NoAlert && pstar>=th+eps),
              HybridProbabilityResult::Bounded{interval,decision,..} => pstar<interval.lower-eps || pstar>interval.upper+eps || (*decision==AlertDecision::Alert && pstar<th-eps) || (*decision==AlertDecision::NoAlert && pstar>=th+eps),
              HybridProbabilityResult::LowerBound{lower_bound,..} => *lower_bound>pstar+eps,
              HybridProbabilityResult::NeedsExact{lower_bound,upper_bound,..} => lower_bound.map_or(false,|l| l>pstar+eps) || upper_bound.map_or(false,|u| u<pstar-eps),
              HybridProbabilityResult::UnsafeApproximation{..} => false };
            if bad { unsound+=1; if unsound<=5 { println!("UNSOUND case {case} {tag}: p*={pstar} th={th} result={:?}", r); } } };
        check(&r0,"fault-free");
        // fault enumeration: the clock jumps past every deadline at reading j, for every j
        for j in 1..=reads { let clk=SimClock{base:Instant::now(),nanos:AtomicU64::new(0),step:1000,reads:AtomicU64::new(0),jump_at:j}; let r=evaluate_hybrid_with_clock(&store,&snap,root,&cfg,&clk); faults+=1; check(&r,&format!("jump@{j}/{reads}")); }
    }
    // observed on the pinned commit: runs=325866 fault_runs=324366 unsound=0 {"Bounded": 34364, "Exact": 250036, "NeedsExact": 41466}
    println!("runs={runs} fault_runs={faults} unsound={unsound} kinds={kinds:?}");
}
