// C12 prototype: incremental_sds_plus vs reference least model with expiry lattice (DESIGN.md 6.10 / 10.1)
use datalog::cross_window_sds::*;
use datalog::reasoning::materialisation::cross_window_incremental::*;
use datalog::reasoning::materialisation::cross_window_naive::naive_sds_plus;
use shared::dictionary::Dictionary;
use shared::rule::Rule;
use shared::terms::Term;
use std::collections::{BTreeMap, BTreeSet, HashMap};
use std::sync::{Arc, RwLock};
fn lcg(x:&mut u64)->u64{ *x = x.wrapping_mul(6364136223846793005).wrapping_add(1442695040888963407); *x>>33 }
fn v(s:&str)->Term{Term::Variable(s.into())}
type F=(String,String,String); type RP=(String,String,String);
fn unify(p:&RP,f:&F,b:&BTreeMap<String,String>)->Option<BTreeMap<String,String>>{ let mut b=b.clone(); for (t,val) in [(&p.0,&f.0),(&p.1,&f.1),(&p.2,&f.2)] { if t.starts_with('?') { match b.get(t){Some(x) if x!=val=>return None,Some(_)=>{},None=>{b.insert(t.clone(),val.clone());}} } else if t!=val {return None;} } Some(b) }
// least model over (fact -> expiry): expiry of a derivation = min over premises, of a fact = max over derivations
fn reference(base:&BTreeMap<F,u64>, rules:&[(Vec<RP>,RP)])->BTreeMap<F,u64>{ let mut m=base.clone(); loop { let mut changed=false; let snap:Vec<(F,u64)>=m.iter().map(|(k,v)|(k.clone(),*v)).collect();
    for (prem,conc) in rules { let mut bs:Vec<(BTreeMap<String,String>,u64)>=vec![(BTreeMap::new(),u64::MAX)]; for p in prem { let mut nb=vec![]; for (b,e) in &bs { for (f,fe) in &snap { if let Some(b2)=unify(p,f,b){ nb.push((b2,(*e).min(*fe))); } } } bs=nb; }
      for (b,e) in bs { let sub=|t:&String| if t.starts_with('?') {b.get(t).cloned().unwrap()} else {t.clone()}; let f=(sub(&conc.0),sub(&conc.1),sub(&conc.2)); let cur=m.get(&f).copied(); if cur.map_or(true,|c| e>c) { m.insert(f,e); changed=true; } } }
    if !changed {break;} } m }
fn main(){
    let mut seed=2024u64; let (mut steps, mut fact_bad, mut exp_bad, mut naive_bad)=(0u64,0u64,0u64,0u64);
    let w1="http://w1/"; let w2="http://w2/"; let out="http://out/"; let st="urn:kolibrie:static:";
    for case in 0..400 {
        let dict=Arc::new(RwLock::new(Dictionary::new()));
        let mk=|prem:Vec<(&str,String,&str)>,conc:(&str,String,&str)| -> (Rule,(Vec<RP>,RP)) { let t=|x:&str| if x.starts_with('?') {v(&x[1..])} else {Term::Constant(dict.write().unwrap().encode(x))}; let r=Rule{premise:prem.iter().map(|(s,p,o)|(t(s),Term::Constant(dict.write().unwrap().encode(p)),t(o))).collect(),negative_premise:vec![],filters:vec![],conclusion:vec![(t(conc.0),Term::Constant(dict.write().unwrap().encode(&conc.1)),t(conc.2))]}; (r,(prem.iter().map(|(s,p,o)|(s.to_string(),p.clone(),o.to_string())).collect(),(conc.0.to_string(),conc.1.clone(),conc.2.to_string()))) };
        let (r1,m1)=mk(vec![("?x",format!("{w1}p"),"?y"),("?y",format!("{w2}q"),"?z")],("?x",format!("{out}r"),"?z"));
        let (r2,m2)=mk(vec![("?x",format!("{out}r"),"?y"),("?y",format!("{out}r"),"?z")],("?x",format!("{out}r"),"?z"));
        let (r3,m3)=mk(vec![("?x",format!("{w1}p"),"?y"),("?y",format!("{st}s"),"?z")],("?x",format!("{out}t"),"?z"));
        let use_rec=lcg(&mut seed)%2==0; let rules:Vec<Rule>= if use_rec {vec![r1,r2,r3]} else {vec![r1,r3]}; let mrules= if use_rec {vec![m1,m2,m3]} else {vec![m1,m3]};
        let a1=2+lcg(&mut seed)%8; let a2=2+lcg(&mut seed)%8;
        // window-consistent contents: triple -> latest arrival; a triple stays listed until arrival + alpha <= t
        let mut c1:BTreeMap<(String,String,String),u64>=BTreeMap::new(); let mut c2=c1.clone();
        let statics:Vec<(String,String,String)>=(0..lcg(&mut seed)%3).map(|i| (format!("n{}",lcg(&mut seed)%4),"s".to_string(),format!("n{}",i))).collect();
        let mut prev:SdsWithExpiry=HashMap::new(); let mut t=0u64;
        for _ in 0..(3+lcg(&mut seed)%10) {
            t+= match lcg(&mut seed)%4 {0=>1,1=>2,2=>1+lcg(&mut seed)%4,_=>1+lcg(&mut seed)%15};
            for _ in 0..lcg(&mut seed)%4 { let f=(format!("n{}",lcg(&mut seed)%4),"p".to_string(),format!("n{}",lcg(&mut seed)%4)); c1.insert(f,t); }
            for _ in 0..lcg(&mut seed)%4 { let f=(format!("n{}",lcg(&mut seed)%4),"q".to_string(),format!("n{}",lcg(&mut seed)%4)); c2.insert(f,t); }
            c1.retain(|_,e| *e+a1>t); c2.retain(|_,e| *e+a2>t);
            let mut sds=Sds::new();
            sds.windows.insert(w1.into(),WindowData{alpha:a1,triples:c1.iter().map(|((s,p,o),e)|WindowedTriple{subject:s.clone(),predicate:p.clone(),object:o.clone(),event_time:*e}).collect()});
            sds.windows.insert(w2.into(),WindowData{alpha:a2,triples:c2.iter().map(|((s,p,o),e)|WindowedTriple{subject:s.clone(),predicate:p.clone(),object:o.clone(),event_time:*e}).collect()});
            if !statics.is_empty() { sds.static_graphs.insert(st.into(),statics.clone()); }
            sds.output_iris.insert(out.into());
            let inc=incremental_sds_plus(&rules,&sds,&prev,&dict,t);
            let mut base:BTreeMap<F,u64>=BTreeMap::new();
            for ((s,p,o),e) in &c1 { base.insert((s.clone(),format!("{w1}{p}"),o.clone()),e+a1); } for ((s,p,o),e) in &c2 { base.insert((s.clone(),format!("{w2}{p}"),o.clone()),e+a2); } for (s,p,o) in &statics { base.insert((s.clone(),format!("{st}{p}"),o.clone()),u64::MAX); }
            let refm=reference(&base,&mrules);
            let d=dict.read().unwrap();
            let mut got:BTreeMap<F,u64>=BTreeMap::new(); for (_c,m) in &inc { for (tr,e) in m { got.insert((d.decode(tr.subject).unwrap().to_string(),d.decode(tr.predicate).unwrap().to_string(),d.decode(tr.object).unwrap().to_string()),*e); } }
            drop(d);
            steps+=1;
            let gk:BTreeSet<&F>=got.keys().collect(); let rk:BTreeSet<&F>=refm.keys().collect();
            if gk!=rk { fact_bad+=1; if fact_bad<=3 { println!("FACTS case {case} t={t}: missing={:?} extra={:?}", rk.difference(&gk).collect::<Vec<_>>(), gk.difference(&rk).collect::<Vec<_>>()); } }
            else { for (f,e) in &refm { if got[f]!=*e { exp_bad+=1; if exp_bad<=3 { println!("EXPIRY case {case} t={t}: {:?} got {} want {}", f, got[f], e); } break; } } }
            let nv=naive_sds_plus(&rules,&sds,&dict,t); let ncount:usize=nv.values().map(|v|v.iter().collect::<BTreeSet<_>>().len()).sum(); if ncount!=refm.len() { naive_bad+=1; if naive_bad<=3 { println!("NAIVE case {case} t={t}: naive {} ref {}", ncount, refm.len()); } }
            prev=inc;
        }
    }
    // observed on the pinned commit: steps=3058 fact_bad=0 expiry_bad=0 naive_bad=0
    println!("steps={steps} fact_bad={fact_bad} expiry_bad={exp_bad} naive_bad={naive_bad}");
}
