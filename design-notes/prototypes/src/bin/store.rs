// C04 prototype: DatasetIndex / SparqlDatabase histories vs abstract quad set + catalog (DESIGN.md 6.3 / 10.1)
use kolibrie::sparql_database::SparqlDatabase;
use shared::dataset_index::{GraphId, Quad};
use shared::triple::Triple;
use std::collections::{BTreeSet, HashSet};
fn lcg(x:&mut u64)->u64{ *x = x.wrapping_mul(6364136223846793005).wrapping_add(1442695040888963407); *x>>33 }
type Q=(u32,u32,u32,GraphId);
fn main(){ let mut seed=404u64; let (mut ops,mut bad)=(0u64,0u64);
  for case in 0..1500 { let mut db=SparqlDatabase::new(); let mut quads:BTreeSet<Q>=BTreeSet::new(); let mut cat:BTreeSet<u32>=BTreeSet::new();
    let big=lcg(&mut seed)%2==0; let ns= if big {12} else {3}; let np= if big {5} else {2}; let ng=3u32;
    let fail=|msg:String,bad:&mut u64| { *bad+=1; if *bad<=5 { println!("case {case}: {msg}"); } };
    for _ in 0..(10+lcg(&mut seed)%120) { ops+=1;
      let s=(lcg(&mut seed)%ns) as u32; let p=100+(lcg(&mut seed)%np) as u32; let o=(lcg(&mut seed)%ns) as u32; let g= match lcg(&mut seed)%(ng as u64+1) {0=>GraphId::Default,k=>GraphId::Named(1000+k as u32)};
      match lcg(&mut seed)%14 {
        0..=4=>{ let r=db.dataset_index.insert_quad(&Quad{subject:s,predicate:p,object:o,graph:g}); if let GraphId::Named(n)=g {cat.insert(n);} let m=quads.insert((s,p,o,g)); if r!=m {fail(format!("insert ret {r} vs {m}"),&mut bad);} }
        5..=7=>{ let r=db.dataset_index.delete_quad(&Quad{subject:s,predicate:p,object:o,graph:g}); let m=quads.remove(&(s,p,o,g)); if r!=m {fail(format!("delete ret {r} vs {m}"),&mut bad);} }
        8=>{ let r=db.dataset_index.create_graph(g); let m=match g {GraphId::Default=>false,GraphId::Named(n)=>cat.insert(n)}; if r!=m {fail(format!("create ret {r} vs {m}"),&mut bad);} }
        9=>{ db.dataset_index.clear_graph(g); quads.retain(|q|q.3!=g); }
        10=>{ let r=db.dataset_index.drop_graph(g); let m=match g {GraphId::Default=>{quads.retain(|q|q.3!=g); true},GraphId::Named(n)=>{ let ex=cat.contains(&n); if ex { quads.retain(|q|q.3!=g); cat.remove(&n);} ex }}; if r!=m {fail(format!("drop ret {r} vs {m}"),&mut bad);} }
        11=>{ db.build_all_indexes(); }
        12=>{ let r=db.dataset_index.insert_triple(&Triple{subject:s,predicate:p,object:o}); let m=quads.insert((s,p,o,GraphId::Default)); if r!=m {fail("insert_triple".into(),&mut bad);} }
        _=>{ if lcg(&mut seed)%20==0 { db.dataset_index.clear(); quads.clear(); cat.clear(); } } }
      let di=&db.dataset_index;
      let aq:Vec<Q>=di.all_quads().iter().map(|q|(q.subject,q.predicate,q.object,q.graph)).collect(); let aqs:BTreeSet<Q>=aq.iter().cloned().collect(); if aq.len()!=aqs.len()||aqs!=quads { fail("all_quads".into(),&mut bad); break; }
      let ng_real:BTreeSet<u32>=di.named_graphs().iter().map(|g| if let GraphId::Named(n)=g {*n} else {0}).collect(); if ng_real!=cat { fail(format!("catalog {:?} vs {:?}",ng_real,cat),&mut bad); break; }
      let graphs:Vec<GraphId>=std::iter::once(GraphId::Default).chain((1..=ng).map(|k|GraphId::Named(1000+k))).collect();
      for shape in 0..8u32 { let (bs,bp,bo)=((shape&1!=0).then_some(s),(shape&2!=0).then_some(p),(shape&4!=0).then_some(o));
        let mt=|q:&Q| bs.map_or(true,|x|x==q.0)&&bp.map_or(true,|x|x==q.1)&&bo.map_or(true,|x|x==q.2);
        for g in &graphs { let r=di.query_graph(*g,bs,bp,bo); let rs:BTreeSet<Q>=r.iter().map(|q|(q.subject,q.predicate,q.object,q.graph)).collect(); let m:BTreeSet<Q>=quads.iter().filter(|q|q.3==*g&&mt(q)).cloned().collect(); if r.len()!=rs.len()||rs!=m { fail(format!("query_graph shape {shape}"),&mut bad); }
          if di.len_graph(*g)!=quads.iter().filter(|q|q.3==*g).count() { fail("len_graph".into(),&mut bad); } if di.graph_exists(*g)!=(matches!(g,GraphId::Default)|| matches!(g,GraphId::Named(n) if cat.contains(n))) { fail("graph_exists".into(),&mut bad); } }
        let vis:Option<HashSet<GraphId>>= if lcg(&mut seed)%2==0 {None} else {Some(graphs.iter().filter(|_|lcg(&mut seed)%2==0).cloned().collect())};
        let r=di.query_named_graphs(bs,bp,bo,vis.as_ref()); let rs:BTreeSet<Q>=r.iter().map(|q|(q.subject,q.predicate,q.object,q.graph)).collect(); let m:BTreeSet<Q>=quads.iter().filter(|q|q.3!=GraphId::Default&&mt(q)&&vis.as_ref().map_or(true,|v|v.contains(&q.3))).cloned().collect(); if r.len()!=rs.len()||rs!=m { fail(format!("query_named_graphs shape {shape} vis {:?}",vis.is_some()),&mut bad); }
        let r=di.query_quads(bs,bp,bo,None); let rs:BTreeSet<Q>=r.iter().map(|q|(q.subject,q.predicate,q.object,q.graph)).collect(); let m:BTreeSet<Q>=quads.iter().filter(|q|mt(q)).cloned().collect(); if r.len()!=rs.len()||rs!=m { fail(format!("query_quads shape {shape}"),&mut bad); }
        let src:Vec<GraphId>=graphs.iter().filter(|_|lcg(&mut seed)%2==0).cloned().collect(); let r=di.query_merged_graphs(&src,bs,bp,bo); let rs:BTreeSet<(u32,u32,u32)>=r.iter().map(|t|(t.subject,t.predicate,t.object)).collect(); let m:BTreeSet<(u32,u32,u32)>=quads.iter().filter(|q|src.contains(&q.3)&&mt(q)).map(|q|(q.0,q.1,q.2)).collect(); if r.len()!=rs.len()||rs!=m { fail(format!("query_merged shape {shape}"),&mut bad); }
      }
      let c=di.contains_quad(&Quad{subject:s,predicate:p,object:o,graph:g}); if c!=quads.contains(&(s,p,o,g)) { fail("contains".into(),&mut bad); }
      let gt:BTreeSet<GraphId>=di.graphs_for_triple(&Triple{subject:s,predicate:p,object:o}).into_iter().collect(); let m:BTreeSet<GraphId>=quads.iter().filter(|q|(q.0,q.1,q.2)==(s,p,o)).map(|q|q.3).collect(); if gt!=m { fail("graphs_for_triple".into(),&mut bad); }
    } }
  // observed on the pinned commit: ops=102657 bad=0
  println!("ops={ops} bad={bad}");
}
