// C17 prototype: hostile client, mutated requests, catch_unwind, panic-site histogram (DESIGN.md 6.13 / 10.2)
use kolibrie::sparql_database::SparqlDatabase;
use kolibrie::execute_query::{execute_sparql_query, execute_sparql_update};
use std::panic::{catch_unwind, AssertUnwindSafe};
fn lcg(x:&mut u64)->u64{ *x = x.wrapping_mul(6364136223846793005).wrapping_add(1442695040888963407); *x>>33 }
static SITES: std::sync::Mutex<std::collections::BTreeMap<String,u64>> = std::sync::Mutex::new(std::collections::BTreeMap::new());
fn main(){
    std::panic::set_hook(Box::new(|info|{ let loc=info.location().map(|l|format!("{}:{}",l.file(),l.line())).unwrap_or_default(); *SITES.lock().unwrap().entry(loc).or_insert(0u64)+=1; }));
    let corpus=["SELECT * WHERE { ?s ?p ?o }","SELECT ?s WHERE { ?s <http://e/p> \"lit\" . FILTER(?s != <http://e/x>) }","PREFIX ex: <http://e/> SELECT DISTINCT ?s WHERE { GRAPH ?g { ?s ex:p ?o } } ORDER BY ?s LIMIT 3","INSERT DATA { <http://e/a> <http://e/p> \"x\" }","DELETE WHERE { ?s <http://e/p> ?o }","DELETE { ?s ?p ?o } INSERT { ?o ?p ?s } WHERE { ?s ?p ?o }","SELECT (COUNT(?s) AS ?c) WHERE { ?s ?p ?o } GROUP BY ?p","SELECT * WHERE { { ?s ?p ?o } UNION { VALUES ?s { <http://e/a> UNDEF } } BIND(CONCAT(?s,\"x\") AS ?z) }","INSERT { ?s <http://e/q> _:b } WHERE { ?s <http://e/p> ?o }"];
    let inserts=["é","日本","😀","\u{0301}","\"","'","{","}","<",">","\\","?","\u{0}","\n"];
    let mut seed=5u64; let (mut reqs,mut panics,mut mutated_state,mut upd_via_query_ok)=(0u64,0u64,0u64,0u64);
    let mut db=SparqlDatabase::new(); for i in 0..6 { db.add_triple_parts(&format!("http://e/n{i}"),"http://e/p",&format!("v{i}")); db.add_quad_parts(&format!("http://e/n{i}"),"http://e/p","http://e/o","http://e/g"); }
    for _ in 0..200000 { let base=corpus[(lcg(&mut seed)%corpus.len() as u64) as usize]; let mut s:String=base.to_string();
        for _ in 0..(lcg(&mut seed)%3) { let chars:Vec<(usize,char)>=s.char_indices().collect(); if chars.is_empty(){break;} let (pos,_)=chars[(lcg(&mut seed)%chars.len() as u64) as usize]; match lcg(&mut seed)%4 {0=>{ s.insert_str(pos,inserts[(lcg(&mut seed)%inserts.len() as u64) as usize]); },1=>{ let c=s[pos..].chars().next().unwrap(); s.replace_range(pos..pos+c.len_utf8(),""); },2=>{ s.truncate(pos); },_=>{ let c=s[pos..].chars().next().unwrap(); s.replace_range(pos..pos+c.len_utf8(),inserts[(lcg(&mut seed)%inserts.len() as u64) as usize]); }} }
        let before=(db.dataset_index.all_quads(),db.dataset_index.named_graphs()); reqs+=1;
        let r=catch_unwind(AssertUnwindSafe(|| execute_sparql_query(&s,&mut db)));
        match r { Err(_)=>{ panics+=1; } Ok(res)=>{ let after=(db.dataset_index.all_quads(),db.dataset_index.named_graphs()); if after!=before { mutated_state+=1; println!("MUTATED via query path: {:?}",s); } if res.is_ok() && (s.trim_start().to_uppercase().starts_with("INSERT")||s.trim_start().to_uppercase().starts_with("DELETE")) { upd_via_query_ok+=1; println!("UPDATE accepted by query path: {:?}",s); } } }
        let mut scratch=db.clone(); let r=catch_unwind(AssertUnwindSafe(|| execute_sparql_update(&s,&mut scratch)));
        if r.is_err() { panics+=1; }
    }
    // observed on the pinned commit: requests=200000 panics=10732 mutated=0 update_via_query_ok=0
    // sites: kolibrie/src/error_handler.rs:159 (110), annotate-snippets source_map.rs:71 (76) and :98 (10546)
    println!("{:#?}",SITES.lock().unwrap()); println!("requests={reqs} panics={panics} mutated={mutated_state} update_via_query_ok={upd_via_query_ok}");
}
