// C09 prototype: CSPARQLWindow vs interval oracle (DESIGN.md 6.7 / 10.1)
use kolibrie::rsp::s2r::*;
use std::sync::{Arc, Mutex};
fn lcg(x:&mut u64)->u64{ *x = x.wrapping_mul(6364136223846793005).wrapping_add(1442695040888963407); *x>>33 }
fn main(){
    let mut seed=12345u64; let mut bad=0; let mut total=0; let mut incomplete=0;
    for _case in 0..20000 {
        let w = 1 + (lcg(&mut seed)%8) as usize; let s = 1 + (lcg(&mut seed)%6) as usize;
        let n = 1 + (lcg(&mut seed)%10) as usize;
        let gapmode = lcg(&mut seed)%3; // 0: gaps<=slide, 1: small, 2: large
        let mut ts=vec![]; let mut t=(lcg(&mut seed)%5) as usize;
        for _ in 0..n { ts.push(t); let g = match gapmode {0=> lcg(&mut seed)%(s as u64+1), 1=> lcg(&mut seed)%4, _=> lcg(&mut seed)%(3*(w+s) as u64)} as usize; t+=g; }
        let mut report=Report::new(); report.add(ReportStrategy::OnWindowClose);
        let mut win=CSPARQLWindow::new(w,s,report,Tick::TimeDriven,"w".to_string());
        let fired:Arc<Mutex<Vec<Vec<(usize,usize)>>>>=Arc::new(Mutex::new(vec![]));
        let f2=fired.clone();
        win.register_callback(Box::new(move |c:ContentContainer<usize>|{ let mut v:Vec<(usize,usize)>=c.iter_with_timestamps().map(|(i,t)|(*i,t)).collect(); v.sort(); f2.lock().unwrap().push(v); }));
        let mut firings:Vec<(usize,Vec<(usize,usize)>)>=vec![]; // (trigger ts, content); items are unique (index i)
        for (i,&tt) in ts.iter().enumerate(){ let before=fired.lock().unwrap().len(); win.add_to_window(i,tt); let g=fired.lock().unwrap(); assert!(g.len()-before<=1); if g.len()>before { firings.push((tt,g.last().unwrap().clone())); } }
        // soundness: every content is the item set of one aligned interval [c-w,c), c<=trigger, c non-decreasing, triggers strictly increasing
        let mut last_c=0usize; let mut last_trig=None; let mut ok=true;
        for (trig,content) in &firings {
            if let Some(lt)=last_trig { if *trig<=lt { ok=false; } } last_trig=Some(*trig);
            let mut found=None; let mut c=((last_c+s-1)/s)*s;
            while c<=*trig { let lo=c.saturating_sub(w); let exp:Vec<(usize,usize)>=ts.iter().enumerate().filter(|(_,&t)| t>=lo && t<c).map(|(i,&t)|(i,t)).collect(); if &exp==content { found=Some(c); break;} c+=s; }
            match found { Some(c)=>{ last_c=c; } None=>{ ok=false; } }
        }
        total+=1; if !ok { bad+=1; if bad<=3 { println!("BAD w={w} s={s} ts={ts:?} firings={firings:?}"); } }
        // completeness when all gaps<=slide: every NON-EMPTY closing interval is reported exactly once
        if ok && ts.windows(2).all(|p| p[1]-p[0]<=s) {
            let first=ts[0]; let last=*ts.last().unwrap();
            let mut c=((first/s)+1)*s;
            while c<=last { let lo=c.saturating_sub(w); let exp:Vec<(usize,usize)>=ts.iter().enumerate().filter(|(_,&t)| t>=lo && t<c).map(|(i,&t)|(i,t)).collect();
                if !exp.is_empty() { let k=firings.iter().filter(|(_,cont)| cont==&exp).count(); if k!=1 { incomplete+=1; if incomplete<=3 { println!("INCOMPLETE w={w} s={s} ts={ts:?} c={c} exp={exp:?} k={k} firings={firings:?}"); } } }
                c+=s; }
        }
    }
    // observed on the pinned commit: cases=20000 bad=0 incomplete=0
    println!("cases={total} bad={bad} incomplete={incomplete}");
}
