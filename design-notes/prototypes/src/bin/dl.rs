// C05 prototype: four materialisation strategies vs a reference least model (DESIGN.md 6.4 / 10.1 / 10.2)
use datalog::reasoning::Reasoner;
use shared::provenance::BooleanProvenance;
use shared::rule::{Rule, FilterCondition};
use shared::terms::Term;
use std::collections::{BTreeMap, BTreeSet};
fn lcg(x:&mut u64)->u64{ *x = x.wrapping_mul(6364136223846793005).wrapping_add(1442695040888963407); *x>>33 }
type F=(String,String,String); type RP=(String,String,String);
#[derive(Clone)] struct R{prem:Vec<RP>,conc:Vec<RP>,filt:Vec<(String,String,String)>}
fn unify(p:&RP,f:&F,b:&BTreeMap<String,String>)->Option<BTreeMap<String,String>>{ let mut b=b.clone(); for (t,val) in [(&p.0,&f.0),(&p.1,&f.1),(&p.2,&f.2)] { if t.starts_with('?') { match b.get(t){Some(x) if x!=val=>return None,Some(_)=>{},None=>{b.insert(t.clone(),val.clone());}} } else if t!=val {return None;} } Some(b) }
// numeric filters as evaluate_filters does: non-numeric values parse as 0
fn filt_ok(b:&BTreeMap<String,String>,fs:&[(String,String,String)])->bool{ for (var,op,val) in fs { if let Some(l)=b.get(&format!("?{var}")) { let ln:f64=l.parse().unwrap_or(0.0); let rn:f64=val.parse().unwrap_or(0.0); let ok=match op.as_str(){">"=>ln>rn,"<"=>ln<rn,">="=>ln>=rn,"<="=>ln<=rn,_=>true}; if !ok {return false;} } } true }
fn lm(facts:&BTreeSet<F>,rules:&[R])->BTreeSet<F>{ let mut m=facts.clone(); loop { let snap:Vec<F>=m.iter().cloned().collect(); let mut add=vec![]; for r in rules { let mut bs=vec![BTreeMap::new()]; for p in &r.prem { let mut nb=vec![]; for b in &bs { for f in &snap { if let Some(b2)=unify(p,f,b){nb.push(b2);} } } bs=nb; } for b in bs { if !filt_ok(&b,&r.filt){continue;} for c in &r.conc { let sub=|t:&String| if t.starts_with('?'){b.get(t).cloned().unwrap()}else{t.clone()}; add.push((sub(&c.0),sub(&c.1),sub(&c.2))); } } } let before=m.len(); m.extend(add); if m.len()==before {break;} } m }
fn build(facts:&[F],rules:&[R])->Reasoner{ let mut r=Reasoner::new(); for f in facts { r.add_abox_triple(&f.0,&f.1,&f.2); } for ru in rules { let t=|x:&String,r:&Reasoner| if x.starts_with('?'){Term::Variable(x[1..].to_string())}else{Term::Constant(r.dictionary.write().unwrap().encode(x))}; let rule=Rule{premise:ru.prem.iter().map(|p|(t(&p.0,&r),t(&p.1,&r),t(&p.2,&r))).collect(),negative_premise:vec![],filters:ru.filt.iter().map(|(v,o,x)|FilterCondition{variable:v.clone(),operator:o.clone(),value:x.clone()}).collect(),conclusion:ru.conc.iter().map(|p|(t(&p.0,&r),t(&p.1,&r),t(&p.2,&r))).collect()}; r.add_rule(rule);} r }
fn dump(r:&Reasoner)->BTreeSet<F>{ let d=r.dictionary.read().unwrap(); r.dataset_index.query(None,None,None).iter().map(|t|(d.decode(t.subject).unwrap_or("?").to_string(),d.decode(t.predicate).unwrap_or("?").to_string(),d.decode(t.object).unwrap_or("?").to_string())).collect() }
static CATS: std::sync::Mutex<BTreeMap<String,u64>> = std::sync::Mutex::new(BTreeMap::new());
fn main(){ let mut seed=777u64; let mut bad=[0u64;4]; let mut cases=0u64; let names=["naive","semi","parallel","prov-bool"]; let mut second_bad=0u64;
  for case in 0..1500 { let nn=3+lcg(&mut seed)%4; let np=2+lcg(&mut seed)%2; let term=|s:&mut u64,kind:u64| -> String { match kind {0=>format!("n{}",lcg(s)%nn),_=>format!("{}",lcg(s)%20)} };
    let mut facts:Vec<F>=vec![]; for _ in 0..(3+lcg(&mut seed)%15) { let numeric=lcg(&mut seed)%5==0; let o=term(&mut seed, if numeric {1} else {0}); facts.push((term(&mut seed,0),format!("p{}",lcg(&mut seed)%np),o)); }
    let vars=["?x","?y","?z","?w"]; let mut rules:Vec<R>=vec![];
    for _ in 0..(1+lcg(&mut seed)%3) { let k= 1+(lcg(&mut seed)%2) as usize + (lcg(&mut seed)%2) as usize; let mut prem=vec![]; let mut used:BTreeSet<String>=BTreeSet::new();
      for i in 0..k { let pickt=|s:&mut u64,i:usize| -> String { if lcg(s)%5==0 { format!("n{}",lcg(s)%nn) } else { vars[(lcg(s)%(i as u64+2)) as usize % 4].to_string() } }; let s=pickt(&mut seed,i); let o=pickt(&mut seed,i); let p= if lcg(&mut seed)%8==0 { "?pv".to_string() } else { format!("p{}",lcg(&mut seed)%np) }; for t in [&s,&p,&o] { if t.starts_with('?'){used.insert(t.clone());} } prem.push((s,p,o)); }
      let uv:Vec<String>=used.iter().cloned().collect(); let pickc=|s:&mut u64| -> String { if uv.is_empty() || lcg(s)%4==0 { format!("n{}",lcg(s)%nn) } else { uv[(lcg(s)%uv.len() as u64) as usize].clone() } };
      let mut conc=vec![]; for _ in 0..(1+lcg(&mut seed)%2) { let cs=pickc(&mut seed); let co=pickc(&mut seed); let cp=format!("p{}",lcg(&mut seed)%(np+1)); conc.push((cs,cp,co)); }
      let filt= if lcg(&mut seed)%4==0 && !uv.is_empty() { let v=uv[(lcg(&mut seed)%uv.len() as u64) as usize][1..].to_string(); vec![(v,[">","<",">=","<="][(lcg(&mut seed)%4) as usize].to_string(),format!("{}",lcg(&mut seed)%20))] } else {vec![]};
      rules.push(R{prem,conc,filt}); }
    let fset:BTreeSet<F>=facts.iter().cloned().collect(); let want=lm(&fset,&rules); cases+=1;
    for (i,name) in names.iter().enumerate() { let mut r=build(&facts,&rules); match i {0=>{r.infer_new_facts_naive();},1=>{r.infer_new_facts_semi_naive();},2=>{r.infer_new_facts_semi_naive_parallel();},_=>{r.infer_new_facts_with_provenance(BooleanProvenance);}};
      let got=dump(&r); if got!=want { bad[i]+=1;
          if i==2 { let f3=rules.iter().any(|r|r.prem.len()>=3); let ff=rules.iter().any(|r|!r.filt.is_empty()); let fv=rules.iter().any(|r|r.prem.iter().any(|p|p.1.starts_with('?'))); let key=format!("3prem={} filt={} varpred={} missing={} extra={}",f3,ff,fv,want.difference(&got).count()>0,got.difference(&want).count()>0); *CATS.lock().unwrap().entry(key).or_insert(0u64)+=1; }
          else if bad[i]<=2 { println!("DIFF {name} case {case}: missing={:?} extra={:?}", want.difference(&got).collect::<Vec<_>>(), got.difference(&want).collect::<Vec<_>>()); } }
      else if i==1 { let again=r.infer_new_facts_semi_naive(); if !again.is_empty() { second_bad+=1; } } }
  }
  // observed on the pinned commit: bad = [0, 0, 408, 0]; every parallel failure has 3prem or filt or varpred
  println!("{:#?}",CATS.lock().unwrap()); println!("cases={cases} bad per strategy {:?} = {:?} second_run_bad={second_bad}",names,bad);
}
