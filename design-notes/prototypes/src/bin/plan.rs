// C02 prototype: BGP permutations x statistics x forced join algorithms (DESIGN.md 6.1 / 10.1)
use kolibrie::parser::parse_combined_query;
use kolibrie::sparql_database::SparqlDatabase;
use kolibrie::streamertail_optimizer::*;
use kolibrie::execute_query::execute_sparql_query;
use shared::query::SparqlOperation;
use std::collections::HashMap;
use std::sync::Arc;
fn lcg(x:&mut u64)->u64{ *x = x.wrapping_mul(6364136223846793005).wrapping_add(1442695040888963407); *x>>33 }
fn pick(l:PhysicalOperator,r:PhysicalOperator,mode:u64,seed:&mut u64)->PhysicalOperator{ use PhysicalOperator as P; let m= if mode==3 { lcg(seed)%3 } else { mode }; match m {0=>P::bind_join(l,r),1=>P::hash_join(l,r),_=>P::nested_loop_join(l,r)} }
// reassign every join node; expand star joins into left-deep joins (mode 0 keeps stars)
fn rewrite(p:&PhysicalOperator, mode:u64, seed:&mut u64)->PhysicalOperator{ use PhysicalOperator as P;
  match p { P::BindJoin{left,right}|P::HashJoin{left,right}|P::NestedLoopJoin{left,right} => { let l=rewrite(left,mode,seed); let r=rewrite(right,mode,seed); pick(l,r,mode,seed) }
    P::Filter{input,condition}=>P::filter(rewrite(input,mode,seed),condition.clone()), P::Projection{input,variables}=>P::projection(rewrite(input,mode,seed),variables.clone()),
    P::Union{branches}=>P::union(branches.iter().map(|b|rewrite(b,mode,seed)).collect()), P::Graph{input,graph}=>P::graph(rewrite(input,mode,seed),graph.clone()),
    P::StarJoin{patterns,..} if mode>=1 => { let mut it=patterns.iter(); let mut acc=P::index_scan(it.next().unwrap().clone()); for pt in it { acc=pick(acc,P::index_scan(pt.clone()),mode,seed); } acc }
    other=>other.clone() } }
fn rows(db:&SparqlDatabase,b:Vec<HashMap<String,u32>>)->Vec<Vec<(String,String)>>{ let mut v:Vec<Vec<(String,String)>>=b.into_iter().map(|r|{let mut x:Vec<(String,String)>=r.into_iter().map(|(k,id)|(k,db.decode_any(id).unwrap_or_default())).collect(); x.sort(); x}).collect(); v.sort(); v }
fn main(){
    let mut seed=4242u64; let (mut cases,mut variants,mut bad)=(0u64,0u64,0u64); let mut stats_changed_plan=0u64;
    for case in 0..400 {
        let mut db=SparqlDatabase::new(); let nn=3+lcg(&mut seed)%5; let np=2+lcg(&mut seed)%2; let nq=5+lcg(&mut seed)%120;
        for _ in 0..nq { let s=format!("http://e/n{}",lcg(&mut seed)%nn); let p=format!("http://e/p{}",lcg(&mut seed)%np); let o=format!("http://e/n{}",lcg(&mut seed)%nn); if lcg(&mut seed)%5==0 { db.add_quad_parts(&s,&p,&o,"http://e/g1"); } else { db.add_triple_parts(&s,&p,&o); } }
        let vars=["?a","?b","?c","?d"]; let k=2+(lcg(&mut seed)%3) as usize; let mut pats=vec![];
        for i in 0..k { let s= if lcg(&mut seed)%6==0 {format!("<http://e/n{}>",lcg(&mut seed)%nn)} else {vars[(lcg(&mut seed)%(i as u64+1)) as usize % 4].to_string()}; let o= if lcg(&mut seed)%6==0 {format!("<http://e/n{}>",lcg(&mut seed)%nn)} else {vars[((i+1)%4).min(3)].to_string()}; pats.push(format!("{} <http://e/p{}> {} .",s,lcg(&mut seed)%np,o)); }
        let graphwrap=lcg(&mut seed)%4==0; let union=lcg(&mut seed)%5==0;
        // LESSON: the pattern under GRAPH and the second UNION branch are part of the query's identity; permute only the rest
        let ub=pats[0].clone(); let wrapped=pats[pats.len()-1].clone();
        let mk=|ps:&Vec<String>| { let mut body=String::new(); for p in ps.iter() { if graphwrap && *p==wrapped { body.push_str(&format!(" GRAPH ?g {{ {} }} ",p)); } else { body.push_str(&format!(" {} ",p)); } } if union { format!("SELECT * WHERE {{ {{ {} }} UNION {{ {} }} }}",body,ub) } else { format!("SELECT * WHERE {{ {} }}",body) } };
        let q0=mk(&pats);
        let base=match execute_sparql_query(&q0,&mut db){Ok(r)=>{let mut r=r; r.sort(); r},Err(e)=>{ if case<3 {println!("ERR {e} for {q0}");} continue;}}; cases+=1;
        for vnum in 0..6 { let mut ps=pats.clone(); for i in (1..ps.len()).rev(){ let j=(lcg(&mut seed)%(i as u64+1)) as usize; ps.swap(i,j);} let q=mk(&ps);
            match vnum%3 {0=>db.invalidate_stats_cache(),1=>{db.cached_stats=Some(Arc::new(DatabaseStats::new()));},_=>{ let mut st=DatabaseStats::new(); st.total_triples=1_000_000_000_000; for p in 0..40u32 { st.predicate_cardinalities.insert(p,(lcg(&mut seed)%3)*1_000_000_000); st.predicate_distinct_subjects.insert(p,lcg(&mut seed)%2); st.predicate_distinct_objects.insert(p,lcg(&mut seed)%2); st.subject_cardinalities.insert(p,lcg(&mut seed)%1000000); st.object_cardinalities.insert(p,0);} st.distinct_subjects=lcg(&mut seed)%2; st.distinct_objects=u64::MAX/4; db.cached_stats=Some(Arc::new(st)); }}
            let mut r=execute_sparql_query(&q,&mut db).unwrap(); r.sort(); variants+=1;
            // SELECT * column order follows pattern order, so rows are compared as sorted value lists
            let norm=|rows:&Vec<Vec<String>>| { let mut v:Vec<Vec<String>>=rows.iter().map(|r|{let mut r=r.clone(); r.sort(); r}).collect(); v.sort(); v };
            if norm(&r)!=norm(&base) { bad+=1; if bad<=3 { println!("E2E DIFF case {case} v{vnum}\n q0={q0}\n q ={q}\n base={:?}\n got ={:?}",base.len(),r.len()); } }
        }
        db.invalidate_stats_cache();
        let (_, parsed)=parse_combined_query(&q0).unwrap(); let Some(SparqlOperation::Select(sel))=parsed.sparql.as_ref() else {continue};
        let prefixes=HashMap::new(); let logical=build_logical_plan_from_group(&sel.pattern,&prefixes,&mut db).unwrap();
        let dataset=DatasetView::from_database(&db); let stats=db.get_or_build_stats();
        let plan=Streamertail::with_cached_stats_and_dataset(stats,dataset.clone()).find_best_plan(&logical);
        let plan_empty=Streamertail::with_cached_stats_and_dataset(Arc::new(DatabaseStats::new()),dataset.clone()).find_best_plan(&logical);
        if format!("{:?}",plan)!=format!("{:?}",plan_empty) { stats_changed_plan+=1; }
        let bb=ExecutionEngine::execute_with_ids_and_dataset(&plan,&mut db,&dataset); let b0=rows(&db,bb);
        for mode in 0..4u64 { for pl in [&plan,&plan_empty] { let p2=rewrite(pl,mode,&mut seed); let bb=ExecutionEngine::execute_with_ids_and_dataset(&p2,&mut db,&dataset); let b=rows(&db,bb); variants+=1; if b!=b0 { bad+=1; if bad<=3 { println!("PLAN DIFF case {case} mode {mode}\n q0={q0}\n base={} got={}\n plan={:?}",b0.len(),b.len(),p2); } } } }
    }
    // observed on the pinned commit: cases=400 variants=5600 bad=0 stats_changed_plan=109
    println!("cases={cases} variants={variants} bad={bad} stats_changed_plan={stats_changed_plan}");
}
