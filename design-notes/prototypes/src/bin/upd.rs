// C03 prototype: reference SPARQL-Update model vs SparqlDatabase::execute_update (DESIGN.md 6.2 / 10.1)
use kolibrie::sparql_database::SparqlDatabase;
use shared::dataset_index::GraphId;
use std::collections::{BTreeMap, BTreeSet};
fn lcg(x:&mut u64)->u64{ *x = x.wrapping_mul(6364136223846793005).wrapping_add(1442695040888963407); *x>>33 }
type Q=(String,String,String,Option<String>);
#[derive(Clone,Default)] struct Model{ quads:BTreeSet<Q>, graphs:BTreeSet<String> }
#[derive(Clone,Debug)] enum T{Var(String),Iri(String),Lit(String),Bn(String)}
#[derive(Clone,Debug)] enum G{Default,Named(String),Var(String)}
#[derive(Clone,Debug)] struct QP{s:T,p:T,o:T,g:G}
fn txt(t:&T)->String{ match t {T::Var(v)=>format!("?{v}"),T::Iri(i)=>format!("<{i}>"),T::Lit(l)=>format!("\"{l}\""),T::Bn(b)=>format!("_:{b}")} }
fn block(qs:&[QP])->String{ let mut s=String::new(); for q in qs { let t=format!("{} {} {} .",txt(&q.s),txt(&q.p),txt(&q.o)); match &q.g {G::Default=>s.push_str(&format!(" {t} ")),G::Named(g)=>s.push_str(&format!(" GRAPH <{g}> {{ {t} }} ")),G::Var(v)=>s.push_str(&format!(" GRAPH ?{v} {{ {t} }} "))} } s }
fn lex(t:&T)->String{ match t {T::Iri(i)=>i.clone(),T::Lit(l)=>l.clone(),_=>unreachable!()} }
// quad-pattern BGP over the model: default patterns see the default graph, GRAPH <g> needs g in the catalog,
// GRAPH ?g ranges over the catalog (or the bound value)
fn matchq(m:&Model,pat:&[QP])->Vec<BTreeMap<String,String>>{ let mut sols:Vec<BTreeMap<String,String>>=vec![BTreeMap::new()];
  for qp in pat { let mut next=vec![]; for b in &sols {
      let graphs:Vec<Option<String>>=match &qp.g {G::Default=>vec![None],G::Named(g)=> if m.graphs.contains(g){vec![Some(g.clone())]}else{vec![]},G::Var(v)=>match b.get(v){Some(g)=> if m.graphs.contains(g){vec![Some(g.clone())]}else{vec![]},None=>m.graphs.iter().map(|g|Some(g.clone())).collect()}};
      for g in graphs { for q in m.quads.iter().filter(|q|q.3==g) { let mut b2=b.clone(); if let (G::Var(v),Some(gn))=(&qp.g,&g) { b2.insert(v.clone(),gn.clone()); } let mut ok=true; for (t,val) in [(&qp.s,&q.0),(&qp.p,&q.1),(&qp.o,&q.2)] { match t {T::Var(v)=>match b2.get(v){Some(x) if x!=val=>{ok=false;break;},Some(_)=>{},None=>{b2.insert(v.clone(),val.clone());}},T::Bn(_)=>{ok=false;break;},other=> if &lex(other)!=val {ok=false;break;}} } if ok {next.push(b2);} } } } sols=next; } sols }
fn is_iri(s:&str)->bool{ s.starts_with("http://") } fn is_bn(s:&str)->bool{ s.starts_with("_:") }
// template instantiation: unbound variable -> quad skipped; variable-bound literal in subject / non-IRI in predicate or
// graph position -> quad skipped; blank-node label -> one fresh node per solution
fn inst(tpl:&[QP],sols:&[BTreeMap<String,String>],insert:bool,ctr:&mut u64)->BTreeSet<Q>{ let mut out=BTreeSet::new(); for b in sols { let mut bn:BTreeMap<String,String>=BTreeMap::new(); for q in tpl { let mut term=|t:&T,ctr:&mut u64|->Option<(String,bool)>{ match t {T::Var(v)=>b.get(v).map(|x|(x.clone(),true)),T::Bn(l)=>{ if !insert {return None;} Some((bn.entry(l.clone()).or_insert_with(||{*ctr+=1; format!("_:B{}",*ctr)}).clone(),false)) },o=>Some((lex(o),false))} };
      let Some((s,sv))=term(&q.s,ctr) else {continue}; if sv && !(is_iri(&s)||is_bn(&s)) {continue;} let Some((p,pv))=term(&q.p,ctr) else {continue}; if pv && !is_iri(&p) {continue;} let Some((o,_))=term(&q.o,ctr) else {continue};
      let g=match &q.g {G::Default=>None,G::Named(g)=>Some(g.clone()),G::Var(v)=>match b.get(v){Some(g) if is_iri(g)=>Some(g.clone()),_=>continue}}; out.insert((s,p,o,g)); } } out }
// all deletions, then all insertions; counts = quads that actually changed; inserting into a graph creates its identity
fn apply(m:&mut Model,del:BTreeSet<Q>,ins:BTreeSet<Q>)->(usize,usize){ let mut d=0; for q in &del { if m.quads.remove(q){d+=1;} } let mut i=0; for q in &ins { if let Some(g)=&q.3 { m.graphs.insert(g.clone()); } if m.quads.insert(q.clone()){i+=1;} } (i,d) }
// prototype shortcut: all fresh blank nodes collapse to one token (the real check does blank-node isomorphism)
fn canon(s:String)->String{ if s.starts_with("_:kolibrie-update-")||s.starts_with("_:B") {"_:B".to_string()} else {s} }
fn dump(db:&SparqlDatabase)->(BTreeSet<Q>,BTreeSet<String>){ let qs=db.dataset_index.all_quads().iter().map(|q|(canon(db.decode_any(q.subject).unwrap()),db.decode_any(q.predicate).unwrap(),canon(db.decode_any(q.object).unwrap()),match q.graph{GraphId::Default=>None,GraphId::Named(g)=>Some(db.decode_any(g).unwrap())})).collect(); let gs=db.dataset_index.named_graphs().iter().map(|g| match g {GraphId::Named(g)=>db.decode_any(*g).unwrap(),_=>unreachable!()}).collect(); (qs,gs) }
fn main(){ let mut seed=31337u64; let (mut steps,mut bad,mut rejected,mut rej_bad,mut cnt_bad)=(0u64,0u64,0u64,0u64,0u64); let mut bnctr=0u64;
  for case in 0..600 { let mut db=SparqlDatabase::new(); let mut m=Model::default();
    let n=|s:&mut u64|format!("http://e/n{}",lcg(s)%4); let p=|s:&mut u64|format!("http://e/p{}",lcg(s)%2); let g=|s:&mut u64|format!("http://e/g{}",lcg(s)%2); let l=|s:&mut u64|format!("v{}",lcg(s)%3);
    for step in 0..(4+lcg(&mut seed)%14) {
      let obj=|s:&mut u64| if lcg(s)%3==0 {T::Lit(l(s))} else {T::Iri(n(s))}; let gr=|s:&mut u64| match lcg(s)%3 {0=>G::Named(g(s)),_=>G::Default};
      let ground=|s:&mut u64,k:u64|->Vec<QP>{ (0..k).map(|_|QP{s:T::Iri(n(s)),p:T::Iri(p(s)),o:obj(s),g:gr(s)}).collect() };
      let vars=["a","b","c"];
      let pattern=|s:&mut u64|->Vec<QP>{ let k=1+lcg(s)%2; let gsel=match lcg(s)%4 {0=>G::Named(g(s)),1=>G::Var("g".into()),_=>G::Default}; (0..k).map(|i|QP{s: if lcg(s)%4==0 {T::Iri(n(s))} else {T::Var(vars[(i as usize)%3].into())},p: if lcg(s)%6==0 {T::Var("pp".into())} else {T::Iri(p(s))},o: if lcg(s)%4==0 {obj(s)} else {T::Var(vars[(i as usize+1)%3].into())},g:gsel.clone()}).collect() };
      let template=|s:&mut u64,insert:bool|->Vec<QP>{ let k=1+lcg(s)%2; (0..k).map(|_|{ let tv=|s:&mut u64,bn:bool|->T{ match lcg(s)%5 {0=>T::Iri(n(s)),1 if bn&&insert=>T::Bn("x".into()),_=>T::Var(vars[(lcg(s)%3) as usize].into())} }; QP{s:tv(s,true),p: if lcg(s)%5==0 {T::Var("pp".into())} else {T::Iri(p(s))},o: if lcg(s)%5==0 {obj(s)} else {tv(s,true)},g:match lcg(s)%5 {0=>G::Named(g(s)),1=>G::Var("g".into()),_=>G::Default}} }).collect() };
      let kind=lcg(&mut seed)%9; let before=m.clone();
      let (text,expect):(String,Option<(BTreeSet<Q>,BTreeSet<Q>)>)=match kind {
        0|1=>{ let k=1+lcg(&mut seed)%3; let q=ground(&mut seed,k); (format!("INSERT DATA {{ {} }}",block(&q)),Some((BTreeSet::new(),inst(&q,&[BTreeMap::new()],true,&mut bnctr)))) }
        2=>{ let k=1+lcg(&mut seed)%2; let q=ground(&mut seed,k); (format!("DELETE DATA {{ {} }}",block(&q)),Some((inst(&q,&[BTreeMap::new()],false,&mut bnctr),BTreeSet::new()))) }
        3=>{ let w=pattern(&mut seed); let t=template(&mut seed,true); let sols=matchq(&m,&w); (format!("INSERT {{ {} }} WHERE {{ {} }}",block(&t),block(&w)),Some((BTreeSet::new(),inst(&t,&sols,true,&mut bnctr)))) }
        4=>{ let w=pattern(&mut seed); let t=template(&mut seed,false); let sols=matchq(&m,&w); (format!("DELETE {{ {} }} WHERE {{ {} }}",block(&t),block(&w)),Some((inst(&t,&sols,false,&mut bnctr),BTreeSet::new()))) }
        5=>{ let w=pattern(&mut seed); let t1=template(&mut seed,false); let t2=template(&mut seed,true); let sols=matchq(&m,&w); (format!("DELETE {{ {} }} INSERT {{ {} }} WHERE {{ {} }}",block(&t1),block(&t2),block(&w)),Some((inst(&t1,&sols,false,&mut bnctr),inst(&t2,&sols,true,&mut bnctr)))) }
        6=>{ let w=pattern(&mut seed); let sols=matchq(&m,&w); (format!("DELETE WHERE {{ {} }}",block(&w)),Some((inst(&w,&sols,false,&mut bnctr),BTreeSet::new()))) }
        7=>{ let alts=["DELETE { _:b <http://e/p0> ?a } WHERE { ?a <http://e/p0> ?b }".to_string(),"INSERT DATA { ?x <http://e/p0> <http://e/n0> }".to_string(),"SELECT * WHERE { ?s ?p ?o }".to_string(),"INSERT DATA { <http://e/n0> <http://e/p0> ".to_string(),"DELETE DATA { <http://e/n0> <http://e/p0> _:b }".to_string(),"INSERT { GRAPH \"lit\" { <http://e/n0> <http://e/p0> <http://e/n1> } } WHERE { }".to_string()]; (alts[(lcg(&mut seed)%alts.len() as u64) as usize].clone(),None) }
        _=>{ // direct API mutation + SELECT: statistics become stale for the next WHERE
             let s=n(&mut seed); let pp=p(&mut seed); let o=n(&mut seed); db.add_triple_parts(&s,&pp,&o); m.quads.insert((s,pp,o,None)); let _=kolibrie::execute_query::execute_sparql_query("SELECT * WHERE { ?s ?p ?o }",&mut db); continue; } };
      steps+=1; let res=db.execute_update(&text);
      match (expect,res) { (None,Ok(s))=>{ rej_bad+=1; if rej_bad<=3 {println!("ACCEPTED-BAD case {case} step {step}: {text} -> {:?}",s);} }
        (None,Err(_))=>{ rejected+=1; let (q,gs)=dump(&db); let mq:BTreeSet<Q>=before.quads.iter().map(|q|(canon(q.0.clone()),q.1.clone(),canon(q.2.clone()),q.3.clone())).collect(); if q!=mq||gs!=before.graphs { rej_bad+=1; println!("REJECTED-CHANGED case {case}: {text}"); } }
        (Some(_),Err(e))=>{ bad+=1; if bad<=3 {println!("UNEXPECTED-ERR case {case} step {step}: {text}\n {}",e.lines().take(3).collect::<Vec<_>>().join(" | "));} m=before; }
        (Some((del,ins)),Ok(sum))=>{ let (i,d)=apply(&mut m,del,ins); let (q,gs)=dump(&db); let mq:BTreeSet<Q>=m.quads.iter().map(|q|(canon(q.0.clone()),q.1.clone(),canon(q.2.clone()),q.3.clone())).collect();
            if q!=mq||gs!=m.graphs { bad+=1; if bad<=4 { println!("STATE-DIFF case {case} step {step}: {text}\n missing={:?}\n extra={:?}\n graphs model={:?} real={:?}",mq.difference(&q).collect::<Vec<_>>(),q.difference(&mq).collect::<Vec<_>>(),m.graphs,gs); } break; }
            else if (sum.inserted_quads,sum.deleted_quads)!=(i,d) { cnt_bad+=1; if cnt_bad<=3 { println!("COUNT-DIFF case {case} step {step}: {text}\n real=({},{}) model=({},{})",sum.inserted_quads,sum.deleted_quads,i,d); } } } }
    } }
  // observed on the pinned commit: update steps=5666 state_bad=0 count_bad=0 rejected=702 rejected_bad=0
  println!("update steps={steps} state_bad={bad} count_bad={cnt_bad} rejected={rejected} rejected_bad={rej_bad}");
}
