// C07 prototype: SddManager histories, truth-table oracle, budget interruption (DESIGN.md 6.5 / 10.1)
use shared::sdd::*;
use shared::diff_sdd::wmc_gradient;
use std::collections::HashMap;
fn lcg(x:&mut u64)->u64{ *x = x.wrapping_mul(6364136223846793005).wrapping_add(1442695040888963407); *x>>33 }
const NV: usize = 6; // up to 6 variables -> 64 rows, one u64 truth table
fn lit_tt(v: usize, pol: bool) -> u64 { let mut t=0u64; for row in 0..64u64 { let b = (row>>v)&1==1; if b==pol { t|=1<<row; } } t }
fn tt_of_models(m:&SddManager, id:SddId) -> u64 { let models=m.enumerate_models(id); let mut t=0u64;
    for row in 0..64u64 { for md in &models { if md.iter().all(|(v,p)| ((row>>*v)&1==1)==*p) { t|=1<<row; break; } } } t }
fn wmc_tt(t:u64, w:&[f64]) -> f64 { let mut s=0.0; for row in 0..64u64 { if t>>row&1==1 { let mut p=1.0; for v in 0..NV { p*= if row>>v&1==1 { w[v] } else { 1.0-w[v] }; } s+=p; } } s }
fn main(){
    let mut seed=7u64; let (mut canon_bad, mut denot_bad, mut wmc_bad, mut grad_bad, mut budget_bad, mut after_bad)=(0,0,0,0,0,0); let mut interrupts=0u64; let mut ops=0u64;
    for case in 0..3000 {
        let mut m=SddManager::new(); let mut b=SddManager::new(); // m unbudgeted, b budgeted with faults
        let mut order:Vec<u32>=(0..NV as u32).collect(); for i in (1..NV).rev(){ let j=(lcg(&mut seed)%(i as u64+1)) as usize; order.swap(i,j);}
        let w:Vec<f64>=(0..NV).map(|_| (lcg(&mut seed)%1000) as f64/1000.0).collect();
        let mut registered:Vec<u32>=vec![]; let mut hs:Vec<(SddId,SddId,u64)>=vec![]; // (id in m, id in b, truth table)
        let nsteps=5+lcg(&mut seed)%40;
        for _ in 0..nsteps {
            let choice=lcg(&mut seed)%10;
            if registered.is_empty() || (choice==0 && registered.len()<NV) { let v=order[registered.len()]; m.ensure_variable(v,w[v as usize]); b.ensure_variable(v,w[v as usize]); registered.push(v); continue; }
            if choice<=2 || hs.len()<2 { let v=registered[(lcg(&mut seed)%registered.len() as u64) as usize]; let pol=lcg(&mut seed)%2==0; let a=m.literal(v,pol); let bb=b.literal(v,pol); hs.push((a,bb,lit_tt(v as usize,pol))); continue; }
            let i=(lcg(&mut seed)%hs.len() as u64) as usize; let j=(lcg(&mut seed)%hs.len() as u64) as usize;
            let (res_m, tt, do_b): (SddId,u64,Box<dyn Fn(&mut SddManager,&mut SddOperationBudget)->Result<SddId,SddBudgetError>>) = if choice==3 { let (a,ab,t)=hs[i]; (m.negate(a), !t, Box::new(move |mg,bu| mg.try_negate(ab,bu))) }
              else { let op= if choice%2==0 {BoolOp::And} else {BoolOp::Or}; let (a,ab,ta)=hs[i]; let (c,cb,tc)=hs[j]; let t= if op==BoolOp::And {ta&tc} else {ta|tc}; (m.apply(a,c,op), t, Box::new(move |mg,bu| mg.try_apply(ab,cb,op,bu))) };
            ops+=1;
            // fault: deadline callback returns false at the k-th checkpoint; then retry unbudgeted on the same manager
            let k=1+lcg(&mut seed)%40; let mut n=0u64; let mut avail=|| { n+=1; n<k };
            let r={ let mut bu=SddOperationBudget::new(usize::MAX,&mut avail); do_b(&mut b,&mut bu) };
            let res_b=match r { Ok(id)=>id, Err(_)=>{ interrupts+=1; let mut yes=||true; let mut bu=SddOperationBudget::new(usize::MAX,&mut yes); match do_b(&mut b,&mut bu){Ok(id)=>id,Err(_)=>{budget_bad+=1; continue;}} } };
            if tt_of_models(&m,res_m)!=tt { denot_bad+=1; if denot_bad<3 {println!("DENOT case {case}");} }
            if tt_of_models(&b,res_b)!=tt { after_bad+=1; if after_bad<3 {println!("AFTER-INTERRUPT DENOT case {case}");} }
            for (a,ab,t) in &hs { if *t==tt { if *a!=res_m { canon_bad+=1; if canon_bad<4 { println!("CANON(m) case {case}: equal tt {:x} ids {:?} vs {:?} vars={:?}",tt,a,res_m,registered);} } if *ab!=res_b { after_bad+=1; if after_bad<4 {println!("CANON(b) case {case}");} } } }
            let fix=|ww:&Vec<f64>| ww.iter().enumerate().map(|(i,x)| if registered.contains(&(i as u32)) {*x} else {0.5}).collect::<Vec<_>>();
            let wm=m.wmc(res_m); let wt=wmc_tt(tt,&fix(&w));
            if (wm-wt).abs()>1e-9 { wmc_bad+=1; if wmc_bad<3 {println!("WMC case {case}: {wm} vs {wt}");} }
            hs.push((res_m,res_b,tt));
        }
        if let Some((id,_,tt))=hs.last().copied() { let g:HashMap<u32,f64>=wmc_gradient(&mut m,id); for &v in &registered { let mut w1=w.clone(); w1[v as usize]=1.0; let mut w0=w.clone(); w0[v as usize]=0.0; let fix=|ww:&Vec<f64>| ww.iter().enumerate().map(|(i,x)| if registered.contains(&(i as u32)) {*x} else {0.5}).collect::<Vec<_>>(); let d=wmc_tt(tt,&fix(&w1))-wmc_tt(tt,&fix(&w0)); let gv=g.get(&v).copied().unwrap_or(0.0); if (gv-d).abs()>1e-9 { grad_bad+=1; } } }
    }
    // observed on the pinned commit: ops=44536 interrupts=3408, all counters 0
    println!("ops={ops} interrupts={interrupts} denot_bad={denot_bad} canon_bad={canon_bad} wmc_bad={wmc_bad} grad_bad={grad_bad} budget_retry_bad={budget_bad} after_interrupt_bad={after_bad}");
}
