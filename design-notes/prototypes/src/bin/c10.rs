// C10 prototype: single-window RSPEngine (SingleThread) vs probe window + closure + BGP + R2S, per firing
// (DESIGN.md 6.8 / 10.1). NOTE the N3 rule syntax: no dot after the closing brace.
use kolibrie::rsp_engine::*;
use kolibrie::rsp::s2r::*;
use shared::triple::Triple;
use std::collections::{BTreeMap, BTreeSet, HashMap};
use std::sync::{Arc, Mutex};
fn lcg(x:&mut u64)->u64{ *x = x.wrapping_mul(6364136223846793005).wrapping_add(1442695040888963407); *x>>33 }
type F=(String,String,String); type Row=Vec<(String,String)>;
fn unify(p:&F,f:&F,b:&BTreeMap<String,String>)->Option<BTreeMap<String,String>>{ let mut b=b.clone(); for (t,val) in [(&p.0,&f.0),(&p.1,&f.1),(&p.2,&f.2)] { if t.starts_with('?') { match b.get(t){Some(x) if x!=val=>return None,Some(_)=>{},None=>{b.insert(t.clone(),val.clone());}} } else if t!=val {return None;} } Some(b) }
fn bgp(pats:&[F],facts:&BTreeSet<F>)->Vec<BTreeMap<String,String>>{ let mut bs=vec![BTreeMap::new()]; for p in pats { let mut nb=vec![]; for b in &bs { for f in facts { if let Some(b2)=unify(p,f,b){nb.push(b2);} } } bs=nb; } bs }
fn closure(facts:&BTreeSet<F>,rules:&[(Vec<F>,F)])->BTreeSet<F>{ let mut m=facts.clone(); loop { let n=m.len(); for (prem,conc) in rules { for b in bgp(prem,&m.clone()) { let sub=|t:&String| if t.starts_with('?'){b[t].clone()}else{t.clone()}; m.insert((sub(&conc.0),sub(&conc.1),sub(&conc.2))); } } if m.len()==n {break;} } m }
fn main(){ let mut seed=1010u64; let (mut cases,mut firings_total,mut bad,mut bad_collision)=(0u64,0u64,0u64,0u64);
  let iri=|x:&str|format!("http://t/{x}");
  for case in 0..400 { let width=1+(lcg(&mut seed)%6) as usize; let slide=1+(lcg(&mut seed)%4) as usize; let op=["RSTREAM","ISTREAM","DSTREAM"][(lcg(&mut seed)%3) as usize];
    let allow_collision=lcg(&mut seed)%5==0;
    let rule_pool:Vec<(Vec<F>,F,String)>=vec![
      (vec![("?s".into(),iri("p"),"?o".into())],("?s".into(),iri("q"),"?o".into()),"{ ?s <http://t/p> ?o } => { ?s <http://t/q> ?o }".into()),
      (vec![("?s".into(),iri("p"),"?o".into()),("?o".into(),iri("p"),"?z".into())],("?s".into(),iri("r"),"?z".into()),"{ ?s <http://t/p> ?o . ?o <http://t/p> ?z } => { ?s <http://t/r> ?z }".into()),
      (vec![("?s".into(),iri("q"),"?o".into())],("?o".into(),iri("r"),"?s".into()),"{ ?s <http://t/q> ?o } => { ?o <http://t/r> ?s }".into())];
    let mut rules=vec![]; let mut rules_txt=String::new(); for r in &rule_pool { if lcg(&mut seed)%2==0 { rules.push((r.0.clone(),r.1.clone())); rules_txt.push_str(&r.2); rules_txt.push('\n'); } }
    let preds=["p","q","r"]; let k=1+lcg(&mut seed)%2; let vars=["?a","?b","?c"]; let mut pats:Vec<F>=vec![]; let mut block=String::new();
    for i in 0..k as usize { let s= if lcg(&mut seed)%5==0 {iri(&format!("n{}",lcg(&mut seed)%3))} else {vars[i].to_string()}; let o= if lcg(&mut seed)%5==0 {iri(&format!("n{}",lcg(&mut seed)%3))} else {vars[i+1].to_string()}; let p=iri(preds[(lcg(&mut seed)%3) as usize]); let t=|x:&String| if x.starts_with('?'){x.clone()}else{format!("<{x}>")}; block.push_str(&format!("{} <{}> {} . ",t(&s),p,t(&o))); pats.push((s,p,o)); }
    let q=format!("REGISTER {op} <http://out/stream> AS SELECT * FROM NAMED WINDOW :w ON ?stream [RANGE {width} STEP {slide}] WHERE {{ WINDOW :w {{ {block} }} }}");
    let out:Arc<Mutex<Vec<Row>>>=Arc::new(Mutex::new(vec![])); let rc=out.clone();
    let consumer=ResultConsumer{function:Arc::new(move |r:Row|{rc.lock().unwrap().push(r);})};
    let r2r=Box::new(SimpleR2R::with_execution_mode(QueryExecutionMode::Volcano));
    let mut e:RSPEngine<Triple,Row>=match RSPBuilder::new().add_rsp_ql_query(&q).add_rules(&rules_txt).add_consumer(consumer).add_r2r(r2r).set_operation_mode(OperationMode::SingleThread).build(){Ok(e)=>e,Err(x)=>{println!("BUILD ERR {x} for {q}");continue;}};
    cases+=1;
    // probe window: same parameters, fed the same items, gives the reported contents
    let mut report=Report::new(); report.add(ReportStrategy::OnWindowClose); let mut probe=CSPARQLWindow::<Triple>::new(width,slide,report,Tick::TimeDriven,"probe".into());
    let conts:Arc<Mutex<Vec<Vec<Triple>>>>=Arc::new(Mutex::new(vec![])); let c2=conts.clone(); probe.register_callback(Box::new(move |c:ContentContainer<Triple>|{ c2.lock().unwrap().push(c.iter().cloned().collect()); }));
    let mut names:HashMap<Triple,F>=HashMap::new(); let mut ts=lcg(&mut seed)%3; let mut prev_rows:BTreeSet<Row>=BTreeSet::new(); let mut collision_seen=false; let mut prev_derived:BTreeSet<F>=BTreeSet::new();
    let n_events=4+lcg(&mut seed)%14;
    for _ in 0..n_events { ts+=match lcg(&mut seed)%5 {0=>0,1|2=>1,3=>2,_=> lcg(&mut seed)%(2*width as u64+2) }; let pr= if allow_collision {preds[(lcg(&mut seed)%3) as usize]} else {"p"};
      let f:(String,String,String)=(iri(&format!("n{}",lcg(&mut seed)%3)),iri(pr),iri(&format!("n{}",lcg(&mut seed)%3)));
      let d=format!("<{}> <{}> <{}> .",f.0,f.1,f.2); let triples=e.parse_data(&d); assert_eq!(triples.len(),1); let t=triples[0].clone(); names.insert(t.clone(),f.clone());
      let before=out.lock().unwrap().len(); let cb=conts.lock().unwrap().len();
      probe.add_to_window(t.clone(),ts as usize); e.add_to_stream("s",t,ts as usize);
      let fired=conts.lock().unwrap().len()-cb; let got:Vec<Row>=out.lock().unwrap()[before..].to_vec();
      if fired==0 { if !got.is_empty() { println!("ROWS WITHOUT FIRING case {case}"); } continue; }
      firings_total+=1; let content:BTreeSet<F>=conts.lock().unwrap().last().unwrap().iter().map(|t|names[t].clone()).collect();
      let closed=closure(&content,&rules); let derived:BTreeSet<F>=closed.difference(&content).cloned().collect(); if content.iter().any(|f|prev_derived.contains(f)) { collision_seen=true; } prev_derived=derived;
      let rows:Vec<Row>=bgp(&pats,&closed).into_iter().map(|b|{let mut r:Row=b.into_iter().map(|(k,v)|(k[1..].to_string(),v)).collect(); r.sort(); r}).collect();
      let rowset:BTreeSet<Row>=rows.iter().cloned().collect();
      let mut expect:Vec<Row>=match op {"RSTREAM"=>rows.clone(),"ISTREAM"=>rows.iter().filter(|r|!prev_rows.contains(*r)).cloned().collect(),_=>prev_rows.iter().filter(|r|!rowset.contains(*r)).cloned().collect()}; prev_rows=rowset;
      let mut g=got.clone(); g.sort(); expect.sort();
      if g!=expect { if collision_seen { bad_collision+=1; } else { bad+=1; if bad<=4 { println!("MISMATCH case {case} op={op} w={width} s={slide} ts={ts}\n q={q}\n rules={rules_txt:?}\n content={content:?}\n expect={expect:?}\n got={g:?}"); } } break; }
    }
    drop(e);
  }
  // observed on the pinned commit: cases=400 firings=2128 mismatches_without_collision=0 mismatches_after_collision=2
  println!("cases={cases} firings={firings_total} mismatches_without_collision={bad} mismatches_after_collision={bad_collision}");
}
