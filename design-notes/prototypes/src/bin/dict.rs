// C15 prototype: id stability and union of two independently grown databases (DESIGN.md 6.12 / 10.1)
use kolibrie::sparql_database::SparqlDatabase;
use shared::dataset_index::{GraphId, Quad};
use shared::triple::Triple;
use std::collections::{BTreeMap, BTreeSet};
fn lcg(x:&mut u64)->u64{ *x = x.wrapping_mul(6364136223846793005).wrapping_add(1442695040888963407); *x>>33 }
type LQ=(String,String,String,Option<String>);
fn term(s:&mut u64,depth:u32)->String{ match lcg(s)%6 { 0 if depth<2 => format!("<< {} <http://e/p{}> {} >>",term(s,depth+1),lcg(s)%2,term(s,depth+1)), 1=>format!("\"v{}\"",lcg(s)%5), _=>format!("<http://e/n{}>",lcg(s)%8) } }
fn lexical(db:&SparqlDatabase)->(BTreeSet<LQ>,BTreeSet<String>,BTreeMap<(String,String,String),u64>){ let qs=db.dataset_index.all_quads().iter().map(|q|(db.decode_any(q.subject).unwrap(),db.decode_any(q.predicate).unwrap(),db.decode_any(q.object).unwrap(),match q.graph{GraphId::Default=>None,GraphId::Named(g)=>Some(db.decode_any(g).unwrap())})).collect(); let gs=db.dataset_index.named_graphs().iter().map(|g| if let GraphId::Named(n)=g {db.decode_any(*n).unwrap()} else {String::new()}).collect(); let seeds=db.probability_seeds.iter().map(|(t,p)|((db.decode_any(t.subject).unwrap(),db.decode_any(t.predicate).unwrap(),db.decode_any(t.object).unwrap()),p.to_bits())).collect(); (qs,gs,seeds) }
fn grow(db:&mut SparqlDatabase,s:&mut u64,bad:&mut u64){ let mut issued:BTreeMap<String,u32>=BTreeMap::new();
  for _ in 0..(5+lcg(s)%40) { match lcg(s)%6 {
      0|1=>{ let t=term(s,0); let id=db.encode_term_star(&t); if let Some(prev)=issued.get(&t) { if *prev!=id { *bad+=1; println!("unstable id for {t}"); } } for (k,v) in &issued { if *v==id && k.trim()!=t.trim() { *bad+=1; println!("id clash {k} vs {t}"); } } issued.insert(t.clone(),id);
            let dec=db.decode_any(id).unwrap(); let re=db.encode_term_star(&if dec.starts_with("<<")||dec.starts_with('"') {dec.clone()} else if t.starts_with('<') {format!("<{dec}>")} else {format!("\"{dec}\"")}); if re!=id { *bad+=1; println!("decode/encode roundtrip {t} -> {dec} -> {re} != {id}"); } }
      2|3=>{ let (a,b,c)=(term(s,0),format!("<http://e/p{}>",lcg(s)%3),term(s,0)); let q=Quad{subject:db.encode_term_star(&a),predicate:db.encode_term_star(&b),object:db.encode_term_star(&c),graph: if lcg(s)%3==0 {GraphId::Named(db.encode_term_star(&format!("<http://e/g{}>",lcg(s)%3)))} else {GraphId::Default}}; db.add_quad(q); }
      4=>{ let g=db.encode_term_star(&format!("<http://e/g{}>",lcg(s)%4)); db.dataset_index.create_graph(GraphId::Named(g)); }
      _=>{ let t=Triple{subject:db.encode_term_star(&term(s,0)),predicate:db.encode_term_star("<http://e/pp>"),object:db.encode_term_star(&term(s,0))}; db.add_triple(t.clone()); db.probability_seeds.insert(t,(lcg(s)%100) as f64/100.0); } } }
  for (t,id) in &issued { if db.encode_term_star(t)!=*id { *bad+=1; println!("id changed later for {t}"); } } }
fn main(){ let mut seed=1515u64; let (mut cases,mut bad)=(0u64,0u64);
  for case in 0..3000 { let mut a=SparqlDatabase::new(); let mut b=SparqlDatabase::new();
    for i in 0..(lcg(&mut seed)%6) { b.encode_term_star(&format!("<http://e/pad{i}>")); } // shift b's ids so they clash with a's
    grow(&mut a,&mut seed,&mut bad); grow(&mut b,&mut seed,&mut bad);
    let (qa,ga,sa)=lexical(&a); let (qb,gb,sb)=lexical(&b); let u=a.union(&b); let (qu,gu,su)=lexical(&u); cases+=1;
    let mq:BTreeSet<LQ>=qa.union(&qb).cloned().collect(); let mg:BTreeSet<String>=ga.union(&gb).cloned().collect(); let mut ms=sa.clone(); for (k,v) in &sb { ms.insert(k.clone(),*v); }
    if qu!=mq { bad+=1; if bad<=3 { println!("case {case} UNION quads: missing {:?} extra {:?}",mq.difference(&qu).take(3).collect::<Vec<_>>(),qu.difference(&mq).take(3).collect::<Vec<_>>()); } }
    if gu!=mg { bad+=1; if bad<=3 { println!("case {case} UNION graphs {:?} vs {:?}",gu,mg); } }
    if su!=ms { bad+=1; if bad<=3 { println!("case {case} UNION seeds differ: {} vs {}",su.len(),ms.len()); } }
    if lexical(&a).0!=qa { bad+=1; println!("union mutated self"); }
  }
  // observed on the pinned commit: cases=3000 bad=0
  println!("cases={cases} bad={bad}");
}
