// std-or-shuttle wrappers used by the probe (the real kolibrie_verif_rt will grow a simulated clock,
// recv_timeout on it, RwLock if needed, and the getrandom/sysconf interposers)
use std::cell::Cell;
thread_local! { static IN_SIM: Cell<bool> = const { Cell::new(false) }; }
pub fn set_sim(on: bool) { IN_SIM.with(|c| c.set(on)); }
pub fn in_sim() -> bool { IN_SIM.with(|c| c.get()) }

pub mod sync {
    use super::in_sim;
    use std::ops::{Deref, DerefMut};
    #[derive(Debug)] pub struct Poisoned;
    pub enum Mutex<T> { Std(std::sync::Mutex<T>), Sim(shuttle::sync::Mutex<T>) }
    pub enum MutexGuard<'a, T> { Std(std::sync::MutexGuard<'a, T>), Sim(shuttle::sync::MutexGuard<'a, T>) }
    impl<T> Mutex<T> {
        pub fn new(t: T) -> Self { if in_sim() { Mutex::Sim(shuttle::sync::Mutex::new(t)) } else { Mutex::Std(std::sync::Mutex::new(t)) } }
        pub fn lock(&self) -> Result<MutexGuard<'_, T>, Poisoned> {
            match self { Mutex::Std(m) => m.lock().map(MutexGuard::Std).map_err(|_| Poisoned), Mutex::Sim(m) => m.lock().map(MutexGuard::Sim).map_err(|_| Poisoned) }
        }
    }
    impl<T> Deref for MutexGuard<'_, T> { type Target = T; fn deref(&self) -> &T { match self { MutexGuard::Std(g) => g, MutexGuard::Sim(g) => g } } }
    impl<T> DerefMut for MutexGuard<'_, T> { fn deref_mut(&mut self) -> &mut T { match self { MutexGuard::Std(g) => g, MutexGuard::Sim(g) => g } } }
    pub mod mpsc {
        use super::super::in_sim;
        #[derive(Debug)] pub struct SendError; #[derive(Debug)] pub struct RecvError; #[derive(Debug)] pub struct TryRecvError;
        pub enum Sender<T> { Std(std::sync::mpsc::Sender<T>), Sim(shuttle::sync::mpsc::Sender<T>) }
        pub enum Receiver<T> { Std(std::sync::mpsc::Receiver<T>), Sim(shuttle::sync::mpsc::Receiver<T>) }
        pub fn channel<T>() -> (Sender<T>, Receiver<T>) {
            if in_sim() { let (s, r) = shuttle::sync::mpsc::channel(); (Sender::Sim(s), Receiver::Sim(r)) } else { let (s, r) = std::sync::mpsc::channel(); (Sender::Std(s), Receiver::Std(r)) }
        }
        impl<T> Sender<T> { pub fn send(&self, t: T) -> Result<(), SendError> { match self { Sender::Std(s) => s.send(t).map_err(|_| SendError), Sender::Sim(s) => s.send(t).map_err(|_| SendError) } } }
        impl<T> Receiver<T> {
            pub fn recv(&self) -> Result<T, RecvError> { match self { Receiver::Std(r) => r.recv().map_err(|_| RecvError), Receiver::Sim(r) => r.recv().map_err(|_| RecvError) } }
            pub fn try_recv(&self) -> Result<T, TryRecvError> { match self { Receiver::Std(r) => r.try_recv().map_err(|_| TryRecvError), Receiver::Sim(r) => r.try_recv().map_err(|_| TryRecvError) } }
        }
    }
}
pub mod thread {
    use super::in_sim;
    pub enum JoinHandle<T> { Std(std::thread::JoinHandle<T>), Sim(shuttle::thread::JoinHandle<T>) }
    pub fn spawn<F, T>(f: F) -> JoinHandle<T> where F: FnOnce() -> T + Send + 'static, T: Send + 'static {
        if in_sim() { JoinHandle::Sim(shuttle::thread::spawn(move || { super::set_sim(true); f() })) } else { JoinHandle::Std(std::thread::spawn(f)) }
    }
    pub fn sleep(d: std::time::Duration) { if in_sim() { shuttle::thread::sleep(d) } else { std::thread::sleep(d) } }
}
pub mod time {
    use std::time::Duration;
    // probe only: real time; the design replaces this by the simulated clock
    #[derive(Clone, Copy, Debug)] pub struct Instant(std::time::Instant);
    impl Instant { pub fn now() -> Self { Instant(std::time::Instant::now()) } pub fn elapsed(&self) -> Duration { self.0.elapsed() } }
}
pub mod xchan {
    // cloneable MPMC channel standing in for crossbeam::channel; shuttle-backed inside a simulation
    use super::in_sim;
    use std::collections::VecDeque;
    use std::sync::Arc;
    use std::time::Duration;
    #[derive(Debug)] pub struct SendError; #[derive(Debug)] pub struct RecvError; #[derive(Debug)] pub struct TryRecvError;
    #[derive(Debug)] pub enum RecvTimeoutError { Timeout, Disconnected }
    pub struct St<T> { q: VecDeque<T>, senders: usize }
    pub struct Inner<T> { st: shuttle::sync::Mutex<St<T>>, cv: shuttle::sync::Condvar }
    pub enum Sender<T> { Real(crossbeam::channel::Sender<T>), Sim(Arc<Inner<T>>) }
    pub enum Receiver<T> { Real(crossbeam::channel::Receiver<T>), Sim(Arc<Inner<T>>) }
    pub fn unbounded<T>() -> (Sender<T>, Receiver<T>) {
        if in_sim() { let i = Arc::new(Inner { st: shuttle::sync::Mutex::new(St { q: VecDeque::new(), senders: 1 }), cv: shuttle::sync::Condvar::new() }); (Sender::Sim(i.clone()), Receiver::Sim(i)) }
        else { let (s, r) = crossbeam::channel::unbounded(); (Sender::Real(s), Receiver::Real(r)) }
    }
    impl<T> Clone for Sender<T> { fn clone(&self) -> Self { match self { Sender::Real(s) => Sender::Real(s.clone()), Sender::Sim(i) => { i.st.lock().unwrap().senders += 1; Sender::Sim(i.clone()) } } } }
    impl<T> Drop for Sender<T> { fn drop(&mut self) { if let Sender::Sim(i) = self { let mut g = i.st.lock().unwrap(); g.senders -= 1; let z = g.senders == 0; drop(g); if z { i.cv.notify_all(); } } } }
    impl<T> Clone for Receiver<T> { fn clone(&self) -> Self { match self { Receiver::Real(r) => Receiver::Real(r.clone()), Receiver::Sim(i) => Receiver::Sim(i.clone()) } } }
    impl<T> Sender<T> { pub fn send(&self, t: T) -> Result<(), SendError> { match self { Sender::Real(s) => s.send(t).map_err(|_| SendError), Sender::Sim(i) => { i.st.lock().unwrap().q.push_back(t); i.cv.notify_all(); Ok(()) } } } }
    impl<T> Receiver<T> {
        pub fn recv(&self) -> Result<T, RecvError> { match self { Receiver::Real(r) => r.recv().map_err(|_| RecvError), Receiver::Sim(i) => { let mut g = i.st.lock().unwrap(); loop { if let Some(x) = g.q.pop_front() { return Ok(x); } if g.senders == 0 { return Err(RecvError); } g = i.cv.wait(g).unwrap(); } } } }
        pub fn try_recv(&self) -> Result<T, TryRecvError> { match self { Receiver::Real(r) => r.try_recv().map_err(|_| TryRecvError), Receiver::Sim(i) => i.st.lock().unwrap().q.pop_front().ok_or(TryRecvError) } }
        // probe only: never times out inside a simulation; the design implements it on the simulated clock
        pub fn recv_timeout(&self, d: Duration) -> Result<T, RecvTimeoutError> { match self { Receiver::Real(r) => r.recv_timeout(d).map_err(|e| match e { crossbeam::channel::RecvTimeoutError::Timeout => RecvTimeoutError::Timeout, _ => RecvTimeoutError::Disconnected }), Receiver::Sim(_) => self.recv().map_err(|_| RecvTimeoutError::Disconnected) } }
    }
}
