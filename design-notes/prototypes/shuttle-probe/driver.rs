// driver of the shuttle probe: builds the (import-switched) engine inside shuttle::check_random
use kolibrie::rsp_engine::*;
use shared::triple::Triple;
use std::sync::{Arc, Mutex};
type Row = Vec<(String, String)>;
fn scenario(mode: OperationMode, out: Arc<Mutex<Vec<Row>>>) {
    let rc = out.clone();
    let consumer = ResultConsumer { function: Arc::new(move |r: Row| { rc.lock().unwrap().push(r); }) };
    let r2r = Box::new(SimpleR2R::with_execution_mode(QueryExecutionMode::Volcano));
    let q = r#"
        REGISTER ISTREAM <http://out/stream> AS
        SELECT *
        FROM NAMED WINDOW :w ON ?stream [RANGE 4 STEP 2]
        WHERE { WINDOW :w { ?s <http://t/q> ?o . } }
    "#;
    let rules = "{ ?s <http://t/p> ?o } => { ?s <http://t/q> ?o }";
    let mut e: RSPEngine<Triple, Row> = RSPBuilder::new().add_rsp_ql_query(q).add_rules(rules).add_consumer(consumer).add_r2r(r2r).set_operation_mode(mode).build().expect("build");
    e.parse_data("<http://t/x> <http://t/p> <http://t/y> .");
    for ts in 1..=12usize {
        let d = format!("<http://t/a{}> <http://t/p> <http://t/b{}> .", ts % 5, ts % 3);
        for t in e.parse_data(&d) { e.add_to_stream("s", t, ts); }
    }
    drop(e); // closes the channels; worker (and coordinator) terminate, otherwise shuttle reports a deadlock
}
static OUTS: Mutex<Vec<Arc<Mutex<Vec<Row>>>>> = Mutex::new(Vec::new());
fn main() {
    let out = Arc::new(Mutex::new(Vec::new()));
    scenario(OperationMode::SingleThread, out.clone());
    let reference: Vec<Row> = out.lock().unwrap().clone();
    println!("single-thread rows: {}", reference.len());
    let t0 = std::time::Instant::now();
    shuttle::check_random(move || {
        vrt::set_sim(true);
        let out = Arc::new(Mutex::new(Vec::new()));
        scenario(OperationMode::MultiThread, out.clone());
        OUTS.lock().unwrap().push(out);
    }, 300);
    vrt::set_sim(false);
    let outs = OUTS.lock().unwrap();
    let mut refsorted = reference.clone(); refsorted.sort();
    let (mut equal, mut eqsorted) = (0, 0); let mut distinct = std::collections::BTreeSet::new();
    for o in outs.iter() { let rows = o.lock().unwrap().clone(); distinct.insert(format!("{:?}", rows)); if rows == reference { equal += 1; } let mut rs = rows.clone(); rs.sort(); if rs == refsorted { eqsorted += 1; } }
    println!("shuttle iterations: {} equal sequences: {} equal as multisets: {} distinct outputs: {} wall: {:?}", outs.len(), equal, eqsorted, distinct.len(), t0.elapsed());
}
