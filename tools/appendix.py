#!/usr/bin/env python3
"""Prints Appendix A of DESIGN.md (which checks catch which changes) from seeded/*/meta.json + the list of own mutations below."""
import json, glob, os, re
V = os.path.dirname(os.path.dirname(os.path.abspath(__file__)))
OWN = [
 ("C02", "hash join probes the table only and drops the un-keyed rows for fully bound left rows (`hash_join_solution_sequences`)", "only through a forced all-hash plan over a UNION with an empty branch", "plan-rewrite-changes-answers", True),
 ("C03", "`apply_mutations` applies insertions before deletions", "DELETE/INSERT whose templates overlap", "dataset-differs, blank-node-structure-differs", True),
 ("C04", "`delete_quad` skips the `gosp` index when subject == object", "delete of a reflexive quad, then an object-bound lookup", "query-graph", True),
 ("C05", "semi-naive delta window starts one fact too late", "recursion deeper than one round", "semi-naive:derivable-fact-missing", True),
 ("C07", "`try_negate` caches the predicted node id before `try_unique_d` has succeeded", "budget exhaustion inside the negation of a decision node, then reuse", "crash (unbounded recursion; found by the process supervisor)", True),
 ("C07", "`try_apply` fills `apply_cache` with a placeholder before the recursive call returns", "deadline at an inner checkpoint, then retry", "after-exhaustion-denotation, denotation", True),
 ("C08", "upper bound omits the probe mass (`interval_from_enumeration`)", "k smaller than the number of proofs", "interval-misses, upper-bound-wrong", True),
 ("C08", "`ResidualMass::Unknown` treated as 0 inside `interval_from_enumeration` only", "-", "not detected: equivalent mutant, both callers return before that line on `Unknown`", False),
 ("C08", "the controller no longer stops on `ResidualMass::Unknown` (and treats it as 0)", "clock jump past the top-k deadline in the middle of proof enumeration", "interval-misses (only in faulted runs)", True),
 ("C09", "window membership test `event_time <= close`", "an item exactly at a window's close", "content-is-not-an-aligned-interval", True),
 ("C10", "one item of the previous window content is not evicted", "two consecutive firings with disjoint content", "firing-sees-older-content, firing-differs, multi-thread-sequence-differs", True),
 ("C11", "`add_static_ntriples` also loads the static triples into the window store", "static data sharing vocabulary with a window block", "static-leak, unexplained-row", True),
 ("C12", "`d_new` keeps a base fact only if its old expiry is larger", "renewal of a triple that is still alive", "expiry-wrong", True),
 ("C13", "`parse_ntriples` drops the 1000th line of every chunk", "documents of 1000 lines or more", "NTriples:triples-missing", True),
 ("C15", "`reencode_term_id` also caches the reverse mapping", "operands whose identifiers clash", "union-quads, union-graphs, union-quoted, union-undecodable", True),
 ("C17", "`execute_sparql_query` executes Update operations instead of refusing them", "update text sent to the query endpoint", "query-path-modified-data, update-accepted-on-query-path", True),
 ("C19", "pinned code before the fix: no maximality filter in `compute_repairs`", "hash iteration order", "answer-missing", True),
]
print("| property | change (source) | needs | detected by `./check <ID> quick` as | caught |")
print("|---|---|---|---|---|")
for p, what, needs, classes, ok in OWN:
    print(f"| {p} | {what} (own mutation, scratch edit of /repo, reverted) | {needs} | {classes} | {'yes' if ok else 'no'} |")
for f in sorted(glob.glob(os.path.join(V, "seeded/*/meta.json"))):
    m = json.load(open(f)); d = os.path.dirname(f)
    notes = open(os.path.join(d, "notes.md")).read() if os.path.exists(os.path.join(d, "notes.md")) else ""
    title = m.get("summary") or next((l.strip("# ").strip() for l in notes.splitlines() if l.strip()), "")
    print(f"| {m['property']} | {title[:160]} (`seeded/{m['id']}`, sub-agent) | {m.get('needs_short','see notes.md')} | {', '.join(m['check']['classes']) or '-'} | {'yes' if m['detected'] else 'NO'}{'' if m['confirmed'] else ' (not confirmed)'}{' — ' + m['strengthening'] if m.get('strengthening') else ''} |")
