#!/bin/bash
# eval_seeded.sh <PROP> <N> <crate> <demo-file> [check-tier]
# 1. confirms the seeded change in the scratch worktree /tmp/wt-<PROP>: demo passes on HEAD, fails with the patch, crate tests pass with the patch
# 2. applies the patch to /repo, runs ./check <PROP> quick (or tier), undoes it
# 3. stores everything under /verif/seeded/<PROP>-<N>/
set -u
P="$1"; N="$2"; CRATE="$3"; DEMO="$4"; TIER="${5:-quick}"
SRC="${SRC_BASE:-/tmp/mut-}$P/$N"; WT="${WT_BASE:-/tmp/wt-}$P"; TAG="${ID_TAG:-}"; OUT="/verif/seeded/$P-$TAG$N"
export CARGO_NET_OFFLINE=true
export CARGO_TARGET_DIR="$WT/target"
mkdir -p "$OUT" "$WT/$CRATE/tests"
git -C "$WT" checkout -- . ; cp "$SRC/$DEMO" "$WT/$CRATE/tests/$DEMO"
T="${DEMO%.rs}"
(cd "$WT" && cargo test -p "$CRATE" --offline --test "$T" >"$OUT/demo_without.log" 2>&1); r_without=$?
git -C "$WT" apply "$SRC/patch.diff" || { echo "patch does not apply"; exit 2; }
(cd "$WT" && cargo test -p "$CRATE" --offline --test "$T" >"$OUT/demo_with.log" 2>&1); r_with=$?
rm -f "$WT/$CRATE/tests/$DEMO"
(cd "$WT" && cargo test -p "$CRATE" --offline --no-fail-fast --lib --tests >"$OUT/existing_tests_with.log" 2>&1); r_tests=$?
# the baseline itself has one always-failing test (BASELINE.json always_fail): only other failures count
# sleep-based multi-thread tests flake when the machine is overloaded: a failing test is re-run alone twice and only counts if it fails again
other_fail=0
for t in $(grep -E "^test .* \.\.\. FAILED" "$OUT/existing_tests_with.log" | grep -v "rsp_ql_dstream_semantics" | awk '{print $2}' | sort -u); do
  ok=0; for k in 1 2; do (cd "$WT" && cargo test -p "$CRATE" --offline --lib --tests "$t" 2>&1 | grep -E "^test .*$t \.\.\. ok" >/dev/null) && ok=$((ok+1)); done
  echo "re-run of $t alone: $ok/2 passes" >> "$OUT/existing_tests_with.log"
  [ $ok -eq 2 ] || other_fail=$((other_fail+1))
done
if [ "$other_fail" -eq 0 ] && grep -q "test result" "$OUT/existing_tests_with.log" && ! grep -q "^error\[" "$OUT/existing_tests_with.log"; then r_tests=0; fi
git -C "$WT" checkout -- . ; git -C "$WT" clean -fdq -e target
echo "[$P-$TAG$N] demo without patch: exit $r_without (want 0); with patch: exit $r_with (want != 0); existing $CRATE tests with patch: exit $r_tests (want 0)"
# ---- against the checks
git -C /repo status --short | grep -q . && { echo "/repo not clean"; exit 2; }
git -C /repo apply "$SRC/patch.diff" || { echo "patch does not apply to /repo"; exit 2; }
(cd /verif && unset CARGO_TARGET_DIR && VERIF_EVIDENCE_OFF=1 ./check "$P" "$TIER" >"$OUT/check_$TIER.log" 2>&1); r_check=$?
git -C /repo checkout -- .
viol=$(grep -c "^VIOLATION" "$OUT/check_$TIER.log")
echo "[$P-$TAG$N] ./check $P $TIER with patch: exit $r_check, VIOLATION lines: $viol"; grep -A1 "^VIOLATION" "$OUT/check_$TIER.log" | grep "class=" | cut -c1-160
cp "$SRC/patch.diff" "$OUT/patch.diff"; cp "$SRC/$DEMO" "$OUT/"; cp "$SRC/notes.md" "$OUT/notes.md" 2>/dev/null; cp "$SRC/README.md" "$OUT/DEMO_README.md" 2>/dev/null
python3 - "$P" "$TAG$N" "$CRATE" "$DEMO" "$r_without" "$r_with" "$r_tests" "$TIER" "$r_check" "$viol" "$OUT" <<'PY'
import json,sys,re
P,N,CRATE,DEMO,rw,rp,rt,TIER,rc,viol,OUT=sys.argv[1:]
notes=open(f"{OUT}/notes.md").read() if __import__('os').path.exists(f"{OUT}/notes.md") else ""
classes=re.findall(r"class=(\S+)", open(f"{OUT}/check_{TIER}.log").read())
meta={"property":P,"id":f"{P}-{N}","origin":"sub-agent given only the property record and its own scratch worktree","breaks":P,
 "demo":{"file":DEMO,"placed_at":f"{CRATE}/tests/{DEMO}","cmd":f"cargo test -p {CRATE} --offline --test {DEMO[:-3]}","exit_without_patch":int(rw),"exit_with_patch":int(rp)},
 "existing_tests":{"cmd":f"cargo test -p {CRATE} --offline","exit_with_patch":int(rt)},
 "confirmed":int(rw)==0 and int(rp)!=0 and int(rt)==0,
 "check":{"cmd":f"./check {P} {TIER}","exit":int(rc),"violation_lines":int(viol),"classes":sorted(set(classes))},
 "detected":int(viol)>0,"needs_to_manifest":"see notes.md (section on the trigger)"}
json.dump(meta,open(f"{OUT}/meta.json","w"),indent=1); print(json.dumps({k:meta[k] for k in ("id","confirmed","detected")}))
PY
