#!/usr/bin/env python3
"""kf_add.py <replay.json> <finding-id> <known|fixed> <what> [--commit <sha>] [--matcher <name>]
Adds (or replaces) an entry of /verif/known_findings.json from a replay file written by a check. Never run by a check."""
import json, sys, os
V = os.path.dirname(os.path.dirname(os.path.abspath(__file__)))
a = sys.argv[1:]
rp, fid, status, what = a[0], a[1], a[2], a[3]
commit = a[a.index("--commit")+1] if "--commit" in a else ""
matcher = a[a.index("--matcher")+1] if "--matcher" in a else ""
r = json.load(open(rp))
p = os.path.join(V, "known_findings.json")
kf = json.load(open(p)) if os.path.exists(p) else {"_doc": "Genuine defects of the pinned commit found by the checks. status=known: recorded, not repaired (the check prints KNOWN-FINDING and suppresses only violations whose minimised form matches `matcher`); status=fixed: repaired by a `fix:` commit in /repo (suppresses nothing; the witness is replayed on every run and reported as a VIOLATION if it fails again). Never written at run time.", "findings": [], "log": []}
kf["findings"] = [f for f in kf["findings"] if f["id"] != fid]
kf["findings"].append({"property": r["property"], "id": fid, "status": status, "class": r["class"], "matcher": matcher, "what": what, "commit": commit, "witness": r["case"]})
kf["log"] = [l for l in kf.get("log", []) if f" {fid} " not in l and not l.endswith(f" {fid}")]
if status == "fixed": kf["log"].append(f"fixed: property={r['property']} {commit} {what} [{fid}]")
else: kf["log"].append(f"known: property={r['property']} {what} [{fid}]")
json.dump(kf, open(p, "w"), indent=1)
print("known_findings.json:", len(kf["findings"]), "entries")
