#!/usr/bin/env python3
"""Regenerates /verif/MANIFEST.json from the table below (keeps it schema-valid at all times)."""
import json, os, subprocess
V = os.path.dirname(os.path.dirname(os.path.abspath(__file__)))
NA = [
 ("C01", "stateless function of (dataset, query): no schedule, clock, fault or history in the statement; needs an independent SPARQL algebra evaluator (differential testing), not simulation. The plan/statistics/thread dimension of the same engine is decided under C02."),
 ("C06", "stateless function of (program, probabilities) in the exact provenance modes; nothing to schedule, interrupt or fail."),
 ("C14", "stateless composition export-then-import on one dataset; Kolibrie has no persistence layer at the pinned commit, so there is no crash point, partial write or restart for a simulator to own."),
 ("C16", "stateless function of one input string; fuzzing / print-parse round-tripping, not simulation."),
 ("C18", "stateless function of (facts, rules, goal); no schedule, clock, fault or retained state."),
]
PLANNED = ["C02","C03","C04","C05","C07","C08","C09","C10","C11","C12","C13","C15","C17","C19"]
CHECKS = {
 "C07": dict(engine="sddsim", level="fault_enumeration", ref="6.5",
   text="Seeded operation histories on two real SddManagers (plain / budgeted) against a truth-table model, with the budget callback and node budget as fault seams: deadline at sampled or every k-th checkpoint and every node budget, from the clean pre-state and cumulatively; thorough adds the exhaustive 3-variable 256x256x2 operand-pair sweep with every-checkpoint interruption. Fault positions are enumerated per generated workload; workloads are sampled.",
   note="Trusts the truth-table model (<=8 variables) and enumerate_models as the observation of a handle's denotation; wmc/gradient compared only where exclusive-group variables are constrained by exactly-one; release-profile semantics.",
   technique="deterministic simulation: seeded operation histories + enumerated budget-exhaustion faults, reference-model refinement"),

 "C08": dict(engine="hybsim", level="fault_enumeration", ref="6.6",
   text="Seeded lineage DAGs (<=12 seeds, independent and exclusive groups) x valid HybridConfigs evaluated by the real hybrid controller under a simulated HybridClock: a fault-free run counts the clock readings R, then the clock jumps past every deadline at reading j for every j (strided above a cap), plus clock steps that make budgets expire mid-phase, small node budgets, compile_lineage_to_sdd_with_clock and evaluate_topk on their own. Oracle: possible-worlds enumeration; soundness only (a result may degrade, never lie).",
   note="Trusts possible-worlds enumeration (<=4096 worlds) with tolerance 1e-9; fault positions are enumerated per generated workload, workloads are sampled; nothing is required about which variant is returned or how fast.",
   technique="deterministic simulation: simulated clock with deadline expiry injected at every clock reading, possible-worlds oracle"),
 "C05": dict(engine="dlsim", level="exploration", ref="6.4",
   text="Seeded safe Datalog programs executed by all four materialisation strategies of the real Reasoner under a simulated rayon pool (size, job cuts, job order, reduce association), permuted fact and rule order and simulator-owned hash seeds; store compared with a reference least (stratified) model after every execution; a second run must derive nothing.",
   note="Reference model is a naive fixpoint on lexical triples; negation compared only on the provenance strategy (the only one with a negative stratum); sim-rayon models rayon at job granularity.",
   technique="deterministic simulation: simulated thread pool + order/hash perturbation, reference-model comparison"),

 "C19": dict(engine="dlsim", level="exploration", ref="6.14",
   text="Seeded (facts, constraints, goal) instances, each executed under 8 (quick) / 32 (thorough) simulator-owned hash seeds on fresh OS threads (run-to-run variation = hash iteration order, made exactly replayable through the getrandom seam); query_with_repairs compared with the intersection of answers over all subset-maximal consistent subsets (all subsets enumerated); repair-aware materialisation must end consistent.",
   note="Constraint violation = premise join non-empty, as violates_constraints does; instances have <= 12 facts so all subsets can be enumerated by the oracle.",
   technique="deterministic simulation: hash-seed (iteration-order) perturbation with exact replay, brute-force repairs oracle"),

 "C12": dict(engine="dlsim", level="exploration", ref="6.10",
   text="Seeded window-consistent stream histories over 2-3 simulated windows (+ static graph) with arrivals, re-arrivals (renewal), bursts and gaps; the simulated clock picks increasing evaluation times (dense, sparse, jumping past every expiry); at every step the real incremental_sds_plus (carried state) is compared per component, fact by fact and expiry by expiry, with a from-scratch reference least model with the expiry lattice; naive_sds_plus must agree on fact sets.",
   note="Window contents are simulated as the quantifier states (a triple listed once with its latest arrival until it expires); the RSPEngine wiring that builds the SDS from real windows is not part of this check.",
   technique="deterministic simulation: simulated stream/evaluation clock, step-by-step refinement against a from-scratch reference model"),

 "C04": dict(engine="dbsim-store", level="exploration", ref="6.3",
   text="Seeded histories of 10-200 store operations (insert/delete quad and triple, create/clear/drop graph, clear, index rebuild, clone, serde round trip) on the real DatasetIndex / SparqlDatabase; after every operation all lookup shapes are compared with an abstract quad set + graph catalog and checked for duplicates. Refinement against a reference model over operation histories; weak fit: the property has no fault or scheduling dimension, the simulator owns only the history, the hash seed and where rebuilds fall.",
   note="Sampling of histories, not enumeration of the small universe; u32 ids are used directly (no dictionary).",
   technique="operation-history simulation with reference-model refinement after every step (no fault dimension exists)"),
 "C15": dict(engine="dbsim-dict", level="exploration", ref="6.12",
   text="Seeded encode / decode / quoted-encode / add-quad histories on two real databases with clashing identifiers, bijection invariants after every step, then SparqlDatabase::union compared with the model union (lexical quads, graph identities, quoted terms, probability seeds). Weak fit: hash seed is the only nondeterminism.",
   note="Terms are generated so that Kolibrie's storage convention cannot confuse kinds (absolute IRIs, plain literals).",
   technique="operation-history simulation with a bijection reference model; hash-seed perturbation only"),

 "C03": dict(engine="dbsim-update", level="exploration", ref="6.2",
   text="Seeded update histories (six forms over default/named graphs, template blank nodes, GRAPH ?g templates, self-referential and illegal-triple templates) with rejected/malformed operations, direct API mutations, SELECTs (stale statistics) and index rebuilds interleaved, against a reference SPARQL-Update model; whole dataset + catalog compared after every step modulo a bijection on fresh blank nodes, reported counts compared with quads actually changed, rejected operations must leave ids unchanged.",
   note="Reference model written from SPARQL 1.1 Update on lexical terms; terms are kind-unambiguous; the process-global blank-node counter is not replaced (label-insensitive oracle, second interleaved session).",
   technique="deterministic simulation: operation histories with injected rejected operations and stale statistics, reference-model refinement after every step"),
 "C17": dict(engine="dbsim-client", level="exploration", ref="6.13",
   text="A hostile client inside a live session: after a generated update history has built a state, valid SELECTs, every update form, legacy aliases and seeded mutations of them (multi-byte characters at token boundaries, truncation, unbalanced quotes/braces, NULs, long tokens) are sent through six entry points; after every request the stored quad ids and catalog must be unchanged on query paths, update syntax refused there, failed updates leave the dataset unchanged, and no entry point may unwind (each request runs under catch_unwind; aborts are caught by the process supervisor).",
   note="Seeded request mutation inside a stateful session; extension statements (ML/RULE/REGISTER) are not in the corpus.",
   technique="deterministic simulation: hostile-client request injection into a stateful session with whole-state invariants after every request"),

 "C13": dict(engine="dbsim-load", level="exploration", ref="6.11",
   text="Seeded abstract triple lists rendered to N-Triples, N-Quads, line-oriented Turtle, N3 and RDF/XML with sizes at and around the internal chunk boundaries (999..2500 lines, 8191..8193 triples), comment/blank lines at PRNG-chosen positions, loaded into empty or pre-populated databases (quads, named graphs, pre-filled dictionary), optionally twice, under a simulated rayon pool (size/splits/job order), a simulated CPU count and - for parse_rdf - crossbeam workers running as shuttle threads under a seeded scheduler. Oracle: lexical quads after = before + document triples; catalog unchanged; formats agree.",
   note="'As written' = Kolibrie's storage convention as N-Triples/N-Quads/RDF-XML apply it; N3 literals are a listed known finding and the N3 rendering replaces literal objects by IRIs outside 1 run in 10; RDF/XML uses the rdf:Description subset.",
   technique="deterministic simulation: simulated thread pool, shuttle-scheduled loader workers, simulated CPU count; quad-set oracle"),

 "C02": dict(engine="dbsim-plan", level="exploration", ref="6.1",
   text="Seeded (dataset, query) pairs from a grammar of the supported fragment, each executed as a baseline and 8-24 variants: patterns permuted inside every BGP, fresh / stale / empty / adversarial statistics installed in cached_stats, every join node of the chosen plan reassigned (all-bind, all-hash, all-nested-loop, mixed), scan kinds swapped, star joins expanded, simulated rayon pool of 1..16 with PRNG-chosen splits and job order, hash seed per variant. Metamorphic oracle: the multiset of decoded rows equals the baseline's; queries never modify data.",
   note="Decides agreement between plans, not correctness of the common answer (that is C01, not claimed). Plan rewrites go through the public pieces the executor itself uses; FILTER/BIND are group-scoped as the quantifier requires.",
   technique="deterministic simulation: fault injection on statistics and plan choice, simulated thread pool, metamorphic comparison"),

 "C09": dict(engine="rspsim-window", level="exploration", ref="6.7",
   text="Seeded in-order event sources (bursts with equal timestamps, gaps <= slide, jumps far beyond the width, repeated items) into the real CSPARQLWindow with width, slide in 1..12 independently, delivered through the callback and, in 1 run in 12, through the channel with a consumer thread under a seeded shuttle schedule; interval oracle over the recorded history (each report = item set of one aligned interval not after its trigger, triggers strictly increasing, intervals non-decreasing and not repeated; with gaps <= slide every non-empty closing interval reported exactly once; channel = callback).",
   note="Completeness is demanded for intervals containing at least one item (for width < slide empty windows are never created; whether an empty interval 'closes' is not observable from the statement).",
   technique="deterministic simulation: simulated event source and clock, shuttle-scheduled consumer, history oracle"),
 "C10": dict(engine="rspsim-single", level="exploration", ref="6.8",
   text="The real RSPBuilder/RSPEngine with SimpleR2R, one window, N3 rules, RSTREAM/ISTREAM/DSTREAM, driven by a simulated in-order stream in single-thread mode and in multi-thread mode under seeded shuttle schedules (Random and PCT; every lock, send, receive and spawn in the three RSP files is a scheduling point through cfg(kolibrie_verif) import switches). A probe window yields the reported contents; per firing the expected emission is reference-BGP over content + reference closure, through a reference stream operator. Single-thread compared firing by firing; multi-thread must emit a concatenation of permutations of the same per-firing sets, terminate and not deadlock.",
   note="Row order inside one firing is hash order and not part of the property; the engine is dropped, not stopped (stop() adds a non-window flush firing).",
   technique="deterministic simulation: shuttle-controlled thread schedules of the real engine, per-firing reference model"),
 "C11": dict(engine="rspsim-multi", level="exploration", ref="6.9",
   text="The real multi-window engine (2-3 windows, optional static data, Wait / Steal / Timeout policies) in single-thread mode and in multi-thread mode (worker per window + coordinator) under seeded shuttle schedules with the simulated clock advanced between pushes so coordinator time-outs fire before, between and after the windows of a cycle (recv_timeout and Instant read the simulated clock). Soundness oracle per emitted row: its projection on each window block is an answer over content that window itself reported (one probe window per engine window), the static part is an answer over static data only; violations are classified (foreign-window-items / static-leak / unexplained-row) so one listed defect cannot mask another; all threads terminate.",
   note="Soundness only (no completeness / timing / which-cycle requirement). The class foreign-window-items under shared vocabulary is a listed known finding (shared R2R store); half of the workloads use disjoint vocabularies where it cannot arise.",
   technique="deterministic simulation: shuttle-controlled schedules + simulated clock driving coordinator time-outs, soundness oracle with classified violations"),
}
ENGINES = [
  {"name": "rspsim-window", "path": "sim/ksim-db/src/rsp.rs", "serves_properties": ["C09"], "kind_free_text": "window simulator"},
  {"name": "rspsim-single", "path": "sim/ksim-db/src/rsp.rs", "serves_properties": ["C10"], "kind_free_text": "single-window RSP engine under shuttle"},
  {"name": "rspsim-multi", "path": "sim/ksim-db/src/rsp.rs", "serves_properties": ["C11"], "kind_free_text": "multi-window RSP engine under shuttle + simulated clock"},
  {"name": "dbsim-plan", "path": "sim/ksim-db/src/plan.rs", "serves_properties": ["C02"], "kind_free_text": "query-plan perturbation simulator (statistics, join algorithms, pool, hash seeds)"},
  {"name": "dbsim-load", "path": "sim/ksim-db/src/loader.rs", "serves_properties": ["C13"], "kind_free_text": "document loader simulator (sim-rayon, sim-crossbeam on shuttle, sysconf interposer)"},
  {"name": "dbsim-update", "path": "sim/ksim-db/src/update.rs", "serves_properties": ["C03", "C17"], "kind_free_text": "update-history simulator with reference Update model; hostile-client session simulator"},
  {"name": "dbsim-store", "path": "sim/ksim-db/src/store.rs", "serves_properties": ["C04"], "kind_free_text": "store-API history simulator"},
  {"name": "dbsim-dict", "path": "sim/ksim-db/src/dict.rs", "serves_properties": ["C15"], "kind_free_text": "dictionary / union history simulator"},
  {"name": "hybsim", "path": "sim/ksim-core/src/hybsim.rs", "serves_properties": ["C08"], "kind_free_text": "lineage/controller simulator under a scripted HybridClock"},
  {"name": "dlsim", "path": "sim/ksim-core/src/dlsim.rs", "serves_properties": ["C05", "C12", "C19"], "kind_free_text": "Datalog reasoner simulator (simulated rayon pool, hash seeds, evaluation clock); C05 and C19 run from ksim-core, C12 is compiled into ksim-db (sim/ksim-db/src/rsp.rs wraps it)"},
  {"name": "sddsim", "path": "sim/ksim-core/src/sddsim.rs", "serves_properties": ["C07"], "kind_free_text": "operation-history simulator over SddManager with budget-closure fault injection"},
]
def main():
    checks = []
    for pid in sorted(CHECKS):
        c = CHECKS[pid]
        checks.append({
            "property_id": pid, "quick_cmd": f"./check {pid} quick", "thorough_cmd": f"./check {pid} thorough",
            "evidence_file": f"/verif/evidence/{pid}.json", "replay_cmd_template": "./check replay {path}", "engine": c["engine"],
            "level_claimed": {"category": c["level"], "text": c["text"], "design_ref": f"DESIGN.md section {c['ref']}"},
            "level_note": c["note"], "technique": c["technique"]})
    hooks = []
    try:
        out = subprocess.run(["git", "-C", "/repo", "log", "--format=%H %s"], capture_output=True, text=True).stdout
        hooks = [l.split()[0] for l in out.splitlines() if l.split(" ",1)[1].startswith("verif hook")]
    except Exception: pass
    m = {"version": 1,
         "setup_cmd": "cd /verif && ./check build all",
         "hooks": {"guard": "kolibrie_verif", "enable": "RUSTFLAGS=--cfg kolibrie_verif via /verif/sim/.cargo/config.toml; shadow manifests under /verif/sim/shadow compile /repo/<crate>/src in place with rayon->sim-rayon, crossbeam->sim-crossbeam",
                   "baseline_off_cmd": "cd /repo && cargo nextest run --workspace --no-fail-fast --test-threads 8 --offline",
                   "source_commits": hooks, "add_only": True},
         "engines": [e for e in ENGINES if any(p in CHECKS for p in e["serves_properties"])],
         "checks": checks,
         "not_applicable": [{"property_id": p, "reason": r} for p, r in NA] + [{"property_id": p, "reason": "planned (DESIGN.md section 0); the engine for this property is not built yet, so nothing is claimed"} for p in PLANNED if p not in CHECKS],
         "notes": "Deterministic simulation with fault injection; see DESIGN.md. ./check <ID> quick|thorough rebuilds the simulation workspace against /repo's working tree (cargo, offline) and runs the engine; exit 0 held / 1 VIOLATION / 2 harness error."}
    json.dump(m, open(os.path.join(V, "MANIFEST.json"), "w"), indent=1)
    print("MANIFEST.json written:", len(checks), "checks")
if __name__ == "__main__": main()
