#!/bin/bash
# Re-run `./check <P> quick` against every kept seeded change (patch applied to /repo, undone afterwards).
# Usage: tools/recheck_seeded.sh [pattern]   -> prints one line per change; exit 1 if any kept change is no longer caught.
cd "$(dirname "$0")/.." || exit 2
pat="${1:-*}"; bad=0
if [ -n "$(git -C /repo status --short)" ]; then echo "/repo is not clean"; exit 2; fi
for d in seeded/$pat/; do
  id=$(basename "$d"); p=$(python3 -c "import json;m=json.load(open('$d/meta.json'));print(m['check']['cmd'].split()[1])")
  det=$(python3 -c "import json;print(json.load(open('$d/meta.json'))['detected'])")
  if [ "$det" != "True" ]; then echo "$id recorded-as-not-caught (skipped)"; continue; fi
  if ! git -C /repo apply --check "$PWD/$d/patch.diff" 2>/dev/null; then
    if git -C /repo apply --check -3 "$PWD/$d/patch.diff" 2>/dev/null; then :; else echo "$id patch-does-not-apply"; continue; fi
  fi
  git -C /repo apply "$PWD/$d/patch.diff" 2>/dev/null || git -C /repo apply -3 "$PWD/$d/patch.diff" 2>/dev/null
  out=$(VERIF_EVIDENCE_OFF=1 ./check "$p" quick 2>&1); rc=$?
  git -C /repo checkout -- . ; git -C /repo reset -q 2>/dev/null
  n=$(echo "$out" | grep -c '^VIOLATION')
  cls=$(echo "$out" | grep -o 'class=[^ ]*' | sort -u | tr '\n' ' ')
  echo "$id exit=$rc violations=$n $cls"
  if [ $rc -ne 1 ]; then bad=1; fi
done
exit $bad
